#!/usr/bin/env python3
"""Confirm a seeded change against /repo itself and file it under /verif/seeded/<id>/.

  tools/seed_keep.py <id> <property> <source dir with patch.diff demo_test.go> "<what it needs to manifest>" <check>...

Applies the patch to /repo (git apply), confirms that the unedited baseline suite still passes and that the
demonstration fails, runs the named checks (quick, then thorough for those that stayed silent if --thorough is given),
undoes the patch (git checkout -- .), confirms that the demonstration passes on the unchanged tree, and writes
patch.diff, the demonstration and meta.json. Nothing is ever committed to /repo.
"""
import json, os, re, shutil, subprocess, sys, time

ENV = dict(os.environ, GOFLAGS="-mod=mod", GOPROXY="off", GOSUMDB="off", GOTOOLCHAIN="local")

def run(cmd, cwd, timeout=3600):
    p = subprocess.run(cmd, cwd=cwd, env=ENV, shell=True, capture_output=True, text=True, timeout=timeout)
    return p.returncode, p.stdout + p.stderr

def main():
    args = [a for a in sys.argv[1:] if a not in ("--thorough", "--race-demo") and not a.startswith("--run=")]
    only = next((a[6:] for a in sys.argv[1:] if a.startswith("--run=")), "")  # run only this test (a demonstration that must be the first use in its process)
    thorough = "--thorough" in sys.argv
    race = "-race " if "--race-demo" in sys.argv else ""
    if only:
        race += "-run '%s' " % only  # demonstrations of data races need the race detector
    sid, prop, src, needs = args[:4]
    checks = args[4:]
    assert run("git status --short", "/repo")[1].strip() == "", "/repo is not clean"
    demo = open(os.path.join(src, "demo_test.go")).read()
    m = re.match(r"//\s*dir:\s*(\S+)", demo)
    ddir = m.group(1) if m else "."
    head = "\n".join(demo.splitlines()[:5])  # optional header lines: "// needs: -race", "// run: <TestName>"
    if re.search(r"^//\s*needs:.*-race", head, re.M) and "-race" not in race:
        race = "-race " + race
    mr = re.search(r"^//\s*run:\s*(\S+)", head, re.M)
    if mr and "-run" not in race:
        race += "-run '%s' " % mr.group(1)
    dpath = os.path.join("/repo", ddir, "zz_seeded_demo_test.go")
    out = {"id": sid, "property": prop, "needs_to_manifest": needs, "demo_run_with_race_detector": "-race" in race, "ran": []}
    try:
        # demonstration on the unchanged tree
        shutil.copy(os.path.join(src, "demo_test.go"), dpath)
        rc, _ = run("go test %s-vet=off -count=1 ./%s" % (race, ddir), "/repo")
        os.remove(dpath)
        out["demo_passes_without_change"] = rc == 0
        rc, o = run("git apply %s" % os.path.join(src, "patch.diff"), "/repo")
        assert rc == 0, "patch does not apply: " + o
        rc1, _ = run("go build ./... && go build -tags verif ./...", "/repo")
        rc2, o2 = run("go test -vet=off -count=1 ./...", "/repo")
        out["builds_with_change"] = rc1 == 0
        out["baseline_suite_passes_with_change"] = rc2 == 0
        shutil.copy(os.path.join(src, "demo_test.go"), dpath)
        rc3, _ = run("go test %s-vet=off -count=1 ./%s" % (race, ddir), "/repo")
        os.remove(dpath)
        out["demo_fails_with_change"] = rc3 != 0
        caught = []
        for c in checks:
            for tier in (["quick", "thorough"] if thorough else ["quick"]):
                t0 = time.time()
                rc, o = run("./check %s %s" % (c, tier), "/verif", timeout=4 * 3600)
                viol = [l for l in o.splitlines() if l.startswith("VIOLATION")]
                first = next((l.strip() for l in o.splitlines() if l.startswith("  ")), "")
                out["ran"].append({"cmd": "./check %s %s" % (c, tier), "exit": rc, "violation_lines": len(viol), "first_report": first[:400], "wall_s": round(time.time() - t0, 1)})
                if rc == 1 and viol:
                    caught.append("%s %s" % (c, tier))
                    break
        out["caught_by"] = caught
    finally:
        if os.path.exists(dpath):
            os.remove(dpath)
        run("git checkout -- .", "/repo")
        run("git checkout -- evidence", "/verif")  # the evidence files describe runs on the unchanged tree only
    assert run("git status --short", "/repo")[1].strip() == "", "/repo not restored"
    dst = os.path.join("/verif/seeded", sid)
    os.makedirs(dst, exist_ok=True)
    shutil.copy(os.path.join(src, "patch.diff"), os.path.join(dst, "patch.diff"))
    shutil.copy(os.path.join(src, "demo_test.go"), os.path.join(dst, "demo_test.go"))
    if os.path.exists(os.path.join(src, "README.md")):
        shutil.copy(os.path.join(src, "README.md"), os.path.join(dst, "author_notes.md"))
    json.dump(out, open(os.path.join(dst, "meta.json"), "w"), indent=1)
    ok = out["demo_passes_without_change"] and out["builds_with_change"] and out["baseline_suite_passes_with_change"] and out["demo_fails_with_change"]
    print("%s [%s] confirmed=%s caught_by=%s" % (sid, prop, ok, out["caught_by"]))

main()
