#!/bin/bash
# Development aid: try a seeded change against some checks without touching /repo.
#   tools/mutant.sh <worktree> <dir with patch.diff demo_test.go> <tier> <Cxx>...
# Applies the patch in the scratch worktree, confirms the baseline suite still passes there, that the demonstration
# fails with the change and passes without it, runs the named checks against that worktree (VERIF_REPO), and reverts.
set -u
WT=$1; M=$2; TIER=$3; shift 3
export GOFLAGS=-mod=mod GOPROXY=off GOSUMDB=off GOTOOLCHAIN=local
cd "$WT" || exit 9
git checkout -q -- . ; git clean -fdq
ddir=$(head -1 "$M/demo_test.go" | sed -n 's,^// *dir: *,,p'); ddir=${ddir:-.}
# optional header lines of the demonstration: "// needs: -race" and "// run: <TestName>" (must be alone in its process)
dflags=""
head -5 "$M/demo_test.go" | grep -q '^// *needs:.*-race' && dflags="-race"
drun=$(head -5 "$M/demo_test.go" | sed -n 's,^// *run: *\([^ ]*\).*,\1,p' | head -1); drun=${drun:-.}
T=$(mktemp -d /tmp/mutant.XXXXXX)
# demo without the patch
cp "$M/demo_test.go" "$ddir/zz_demo_test.go"
if go test $dflags -vet=off -count=1 -run "$drun" "./$ddir" >$T/demo0 2>&1; then echo "demo-without-patch: PASS"; else echo "demo-without-patch: FAIL (bad demo)"; tail -5 $T/demo0; fi
rm -f "$ddir/zz_demo_test.go"
git apply "$M/patch.diff" || { echo "patch does not apply"; exit 8; }
if go build ./... && go build -tags verif ./... ; then echo "builds: OK"; else echo "builds: FAIL"; fi
if go test -vet=off -count=1 ./... >$T/suite 2>&1; then echo "suite-with-patch: PASS"; else echo "suite-with-patch: FAIL"; tail -5 $T/suite; fi
cp "$M/demo_test.go" "$ddir/zz_demo_test.go"
if go test $dflags -vet=off -count=1 -run "$drun" "./$ddir" >$T/demo1 2>&1; then echo "demo-with-patch: PASS (bad demo)"; else echo "demo-with-patch: FAIL (as it should)"; fi
rm -f "$ddir/zz_demo_test.go"
cd /verif
for c in "$@"; do
  VERIF_REPO="$WT" ./check "$c" "$TIER" >$T/chk 2>&1; rc=$?
  echo "check $c $TIER: exit=$rc  $(grep -c '^VIOLATION' $T/chk) VIOLATION line(s); $(grep -v '^VIOLATION\|^KNOWN' $T/chk | head -2 | cut -c1-260 | tr '\n' ' ')"
done
git -C /verif checkout -q -- evidence   # (the evidence files describe runs on the unchanged tree only)
cd "$WT" && git checkout -q -- . && git clean -fdq
rm -rf $T
