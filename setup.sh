#!/bin/bash
# Builds the framework from files on disk only (offline). Checks rebuild the worker themselves.
set -eu
cd "$(dirname "$0")"
export GOFLAGS=-mod=mod GOPROXY=off GOSUMDB=off GOTOOLCHAIN=local
mkdir -p .build evidence replays
(cd harness && go build -o ../.build/vdriver ./cmd/vdriver && go build -tags verif -o ../.build/vworker-verif ./cmd/vworker)
echo "setup ok"
