// Package oracle is the reference model used by every monitor: exact decimal
// values in math/big integers, exact results of the arithmetic operations, a
// round-once function (model #1) and a checker that decides correct rounding
// from its definition (model #2). It shares no code with the library under
// test: library values are read back through the public BitsExp/Signbit/...
// accessors and converted word by word.
package oracle

import (
	"fmt"
	"math/big"
	"sync"
)

// Limits of the library's exponent range (value = 0.d1d2... x 10^E, MinExp <= E <= MaxExp).
const (
	MaxExp = int64(1<<31 - 1)
	MinExp = int64(-1 << 31)
)

// Rounding modes, numbered like decimal.RoundingMode.
const (
	ToNearestEven = iota
	ToNearestAway
	ToZero
	AwayFromZero
	ToNegativeInf
	ToPositiveInf
	NumModes
)

var ModeNames = [...]string{"ToNearestEven", "ToNearestAway", "ToZero", "AwayFromZero", "ToNegativeInf", "ToPositiveInf"}

type Form int8

const (
	Zero Form = iota
	Finite
	Inf
)

// Val is an exact decimal value (-1)^Neg x Coef x 10^Exp, or a signed zero / infinity.
// For Finite values Coef > 0 (a Finite Val with Coef == 0 denotes a malformed
// library value and is only ever produced by Read).
type Val struct {
	Form Form
	Neg  bool
	Coef *big.Int
	Exp  int64
}

func (v Val) String() string {
	s := "+"
	if v.Neg {
		s = "-"
	}
	switch v.Form {
	case Zero:
		return s + "0"
	case Inf:
		return s + "Inf"
	}
	c := v.Coef.String()
	if len(c) > 70 {
		c = fmt.Sprintf("%s...%s(%d digits)", c[:30], c[len(c)-30:], len(c))
	}
	return fmt.Sprintf("%s%se%d", s, c, v.Exp)
}

// Full returns the complete, unabridged text of v (replay files).
func (v Val) Full() string {
	s := "+"
	if v.Neg {
		s = "-"
	}
	switch v.Form {
	case Zero:
		return s + "0"
	case Inf:
		return s + "Inf"
	}
	return fmt.Sprintf("%s%se%d", s, v.Coef.String(), v.Exp)
}

var (
	powMu    sync.Mutex
	powTab   = map[int64]*big.Int{}
	powBytes int64
	bigTen   = big.NewInt(10)
	bigOne   = big.NewInt(1)
	bigFive  = big.NewInt(5)
)

// PowCap is the largest power of ten the oracle is willing to materialise.
// Exceeding it is a bug in a generator (cases must be cost-capped), not a verdict.
const PowCap = 3000000

type CostError struct{ N int64 }

func (e CostError) Error() string { return fmt.Sprintf("oracle cost cap: 10^%d", e.N) }

// Pow10 returns 10^n (shared, read-only).
func Pow10(n int64) *big.Int {
	if n < 0 {
		panic(fmt.Sprintf("oracle: Pow10(%d)", n))
	}
	if n > PowCap {
		panic(CostError{n})
	}
	powMu.Lock()
	p, ok := powTab[n]
	powMu.Unlock()
	if ok {
		return p
	}
	p = new(big.Int).Exp(bigTen, big.NewInt(n), nil)
	powMu.Lock()
	if powBytes < 200<<20 {
		powTab[n] = p
		powBytes += int64(len(p.Bits()))*8 + 64
	}
	powMu.Unlock()
	return p
}

// Digits returns the number of decimal digits of x > 0 (0 for x == 0).
func Digits(x *big.Int) int64 {
	if x.Sign() == 0 {
		return 0
	}
	bl := x.BitLen()
	if bl <= 63 {
		v := x.Uint64()
		n := int64(1)
		for v >= 10 {
			v /= 10
			n++
		}
		return n
	}
	// 10^(n-1) <= x < 10^n ; (bl-1)*log10(2) < log10(x) < bl*log10(2)
	lo := int64(float64(bl-1)*0.30102999566398114) + 1 // <= true count (floor(log10 x) + 1 >= this, up to float error)
	if lo < 1 {
		lo = 1
	}
	// float error is far below 1 for bl < 2^40; check candidates lo-1, lo, lo+1
	for n := lo - 1; ; n++ {
		if n < 1 {
			continue
		}
		if x.CmpAbs(Pow10(n)) < 0 {
			return n
		}
	}
}

// LeadExp returns E such that |v| is in [10^(E-1), 10^E) (finite v only).
func (v Val) LeadExp() int64 { return Digits(v.Coef) + v.Exp }

// Strip returns v with trailing zero digits of the coefficient removed.
func (v Val) Strip() Val {
	if v.Form != Finite || v.Coef.Sign() == 0 {
		return v
	}
	c := v.Coef
	e := v.Exp
	// remove by big chunks first
	for _, k := range []int64{4096, 256, 19, 1} {
		p := Pow10(k)
		for {
			q, r := new(big.Int).QuoRem(c, p, new(big.Int))
			if r.Sign() != 0 {
				break
			}
			c = q
			e += k
		}
	}
	return Val{Finite, v.Neg, c, e}
}

// MinPrec is the number of significant digits of v (0 for zero/inf).
func (v Val) MinPrec() int64 {
	if v.Form != Finite {
		return 0
	}
	return Digits(v.Strip().Coef)
}

// CmpMagDec returns sign(a x 10^ea - b x 10^eb) for a, b > 0.
func CmpMagDec(a *big.Int, ea int64, b *big.Int, eb int64) int {
	la, lb := Digits(a)+ea, Digits(b)+eb
	if la != lb {
		if la < lb {
			return -1
		}
		return 1
	}
	switch {
	case ea == eb:
		return a.Cmp(b)
	case ea > eb:
		return new(big.Int).Mul(a, Pow10(ea-eb)).Cmp(b)
	default:
		return a.Cmp(new(big.Int).Mul(b, Pow10(eb-ea)))
	}
}

// Equal reports whether two values are the same number with the same sign
// (signed zeros and infinities compare by sign).
func Equal(a, b Val) bool {
	if a.Form != b.Form || a.Neg != b.Neg {
		return false
	}
	if a.Form != Finite {
		return true
	}
	if a.Coef.Sign() == 0 || b.Coef.Sign() == 0 {
		return a.Coef.Sign() == b.Coef.Sign()
	}
	return CmpMagDec(a.Coef, a.Exp, b.Coef, b.Exp) == 0
}

// Cmp is the exact order: -Inf < finite < +Inf, -0 == +0.
func Cmp(a, b Val) int {
	ord := func(v Val) int {
		m := 0
		switch v.Form {
		case Finite:
			m = 1
		case Inf:
			m = 2
		}
		if v.Neg {
			m = -m
		}
		return m
	}
	oa, ob := ord(a), ord(b)
	if oa != ob {
		if oa < ob {
			return -1
		}
		return 1
	}
	switch oa {
	case 1:
		return CmpMagDec(a.Coef, a.Exp, b.Coef, b.Exp)
	case -1:
		return CmpMagDec(b.Coef, b.Exp, a.Coef, a.Exp)
	}
	return 0
}

// Negate returns -v.
func (v Val) Negate() Val { v.Neg = !v.Neg; return v }

// FromWords builds the magnitude denoted by a little-endian slice of base-10^19 words.
func FromWords(w []uint) *big.Int {
	return fromWords(w)
}

var base19 = new(big.Int).SetUint64(10000000000000000000)

func fromWords(w []uint) *big.Int {
	n := len(w)
	switch {
	case n == 0:
		return new(big.Int)
	case n <= 8:
		r := new(big.Int)
		t := new(big.Int)
		for i := n - 1; i >= 0; i-- {
			r.Mul(r, base19)
			r.Add(r, t.SetUint64(uint64(w[i])))
		}
		return r
	}
	h := n / 2
	lo := fromWords(w[:h])
	hi := fromWords(w[h:])
	hi.Mul(hi, Pow10(int64(h)*19))
	return hi.Add(hi, lo)
}

// ToWords is the inverse of FromWords (length = minimal, or padded to n words if n > 0).
func ToWords(x *big.Int, n int) []uint {
	var out []uint
	t := new(big.Int).Set(x)
	r := new(big.Int)
	for t.Sign() != 0 {
		t.QuoRem(t, base19, r)
		out = append(out, uint(r.Uint64()))
	}
	for len(out) < n {
		out = append(out, 0)
	}
	return out
}
