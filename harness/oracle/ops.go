package oracle

import "math/big"

// Outcome describes what an arithmetic operation must do, before rounding.
type Outcome struct {
	NaN     bool   // the operation is invalid: must panic with ErrNaN
	Special bool   // the result is R as it stands (zero, infinity): no rounding involved
	R       Result // valid when Special
	Ex      Exact  // the exact non-zero finite result otherwise
}

func special(f Form, neg bool) Outcome {
	return Outcome{Special: true, R: Result{Val{Form: f, Neg: neg}, 0}}
}

func exOf(v Val) Exact { return ExDec{v.Neg, v.Coef, v.Exp} }

// zeroSum is the IEEE 754 sign rule for an exactly zero sum of two addends with the given signs.
func zeroSum(aneg, bneg bool, mode int) Outcome {
	if aneg == bneg {
		return special(Zero, aneg)
	}
	return special(Zero, mode == ToNegativeInf)
}

// addDec returns the exact sum of two finite values (sign, coef, exp) or ok=false when it is zero.
func addDec(x, y Val) (ExDec, bool) {
	e := x.Exp
	if y.Exp < e {
		e = y.Exp
	}
	a := new(big.Int).Mul(x.Coef, Pow10(x.Exp-e))
	b := new(big.Int).Mul(y.Coef, Pow10(y.Exp-e))
	if x.Neg {
		a.Neg(a)
	}
	if y.Neg {
		b.Neg(b)
	}
	a.Add(a, b)
	if a.Sign() == 0 {
		return ExDec{}, false
	}
	neg := a.Sign() < 0
	a.Abs(a)
	return ExDec{neg, a, e}, true
}

// Add is x + y.
func Add(x, y Val, mode int) Outcome {
	switch {
	case x.Form == Inf && y.Form == Inf:
		if x.Neg != y.Neg {
			return Outcome{NaN: true}
		}
		return special(Inf, x.Neg)
	case x.Form == Inf:
		return special(Inf, x.Neg)
	case y.Form == Inf:
		return special(Inf, y.Neg)
	case x.Form == Zero && y.Form == Zero:
		return zeroSum(x.Neg, y.Neg, mode)
	case x.Form == Zero:
		return Outcome{Ex: exOf(y)}
	case y.Form == Zero:
		return Outcome{Ex: exOf(x)}
	}
	s, ok := addDec(x, y)
	if !ok {
		return zeroSum(x.Neg, y.Neg, mode)
	}
	return Outcome{Ex: s}
}

// Sub is x - y = x + (-y).
func Sub(x, y Val, mode int) Outcome { return Add(x, y.Negate(), mode) }

// Mul is x * y.
func Mul(x, y Val) Outcome {
	neg := x.Neg != y.Neg
	switch {
	case x.Form == Zero && y.Form == Inf, x.Form == Inf && y.Form == Zero:
		return Outcome{NaN: true}
	case x.Form == Inf || y.Form == Inf:
		return special(Inf, neg)
	case x.Form == Zero || y.Form == Zero:
		return special(Zero, neg)
	}
	return Outcome{Ex: ExDec{neg, new(big.Int).Mul(x.Coef, y.Coef), x.Exp + y.Exp}}
}

// Quo is x / y.
func Quo(x, y Val) Outcome {
	neg := x.Neg != y.Neg
	switch {
	case x.Form == Zero && y.Form == Zero, x.Form == Inf && y.Form == Inf:
		return Outcome{NaN: true}
	case x.Form == Zero || y.Form == Inf:
		return special(Zero, neg)
	case y.Form == Zero || x.Form == Inf:
		return special(Inf, neg)
	}
	// exact when the division terminates: keep it as a ratio, both models handle that
	return Outcome{Ex: ExRat{neg, x.Coef, y.Coef, x.Exp - y.Exp}}
}

// FMA is x*y + u with the product kept exact.
func FMA(x, y, u Val, mode int) Outcome {
	p := Mul(x, y)
	if p.NaN {
		return p
	}
	if p.Special {
		return Add(p.R.V, u, mode)
	}
	pd := p.Ex.(ExDec)
	return Add(Val{Finite, pd.Neg, pd.Coef, pd.Exp}, u, mode)
}

// Sqrt is the square root of x.
func Sqrt(x Val) Outcome {
	switch {
	case x.Form == Zero:
		return special(Zero, x.Neg)
	case x.Neg:
		return Outcome{NaN: true}
	case x.Form == Inf:
		return special(Inf, false)
	}
	return Outcome{Ex: ExSqrt{x.Coef, x.Exp}}
}

// Ident is the value itself (Set, SetPrec, the setters).
func Ident(x Val) Outcome {
	if x.Form != Finite {
		return special(x.Form, x.Neg)
	}
	return Outcome{Ex: exOf(x)}
}

// Expect applies model #1 to an outcome (NaN outcomes have no result).
func (o Outcome) Expect(p int64, mode int) Result {
	if o.Special {
		return o.R
	}
	return RoundOnce(o.Ex, p, mode)
}

// Check applies model #2 to what the library stored: a message about the value
// and one about the accuracy, each "" when legitimate.
func (o Outcome) Check(s Val, acc int, p int64, mode int) (valueMsg, accMsg string) {
	if o.Special {
		if s.Form != o.R.V.Form || s.Neg != o.R.V.Neg {
			valueMsg = "special-case result differs: want " + o.R.V.String()
		}
		if acc != 0 {
			accMsg = "special-case result must be Exact"
		}
		return
	}
	return DefCheck(o.Ex, s, acc, p, mode)
}
