package oracle

import (
	"fmt"
	"math/big"
)

// Exact is an infinitely precise non-zero real number given by its sign and
// two ways to interrogate its magnitude. Three kinds exist: a decimal
// (Coef x 10^Exp), a ratio (Num/Den x 10^Exp) and a square root.
type Exact interface {
	IsNeg() bool
	// Trunc returns t with exactly n digits and e such that
	// t x 10^e <= |v| < (t+1) x 10^e, and whether |v| > t x 10^e.
	Trunc(n int64) (t *big.Int, e int64, sticky bool)
	// CmpMag returns sign(c x 10^e - |v|), c > 0.
	CmpMag(c *big.Int, e int64) int
	// LeadExp returns E with 10^(E-1) <= |v| < 10^E.
	LeadExp() int64
	String() string
}

// ---------------------------------------------------------------- decimal

type ExDec struct {
	Neg  bool
	Coef *big.Int
	Exp  int64
}

func (x ExDec) IsNeg() bool    { return x.Neg }
func (x ExDec) LeadExp() int64 { return Digits(x.Coef) + x.Exp }
func (x ExDec) String() string { return Val{Finite, x.Neg, x.Coef, x.Exp}.String() }
func (x ExDec) Trunc(n int64) (*big.Int, int64, bool) {
	return truncInt(x.Coef, x.Exp, n, false)
}
func (x ExDec) CmpMag(c *big.Int, e int64) int { return CmpMagDec(c, e, x.Coef, x.Exp) }

// truncInt cuts (coef + sticky) x 10^exp to n digits.
func truncInt(coef *big.Int, exp int64, n int64, sticky bool) (*big.Int, int64, bool) {
	d := Digits(coef)
	if d <= n {
		return new(big.Int).Mul(coef, Pow10(n-d)), exp - (n - d), sticky
	}
	q, r := new(big.Int).QuoRem(coef, Pow10(d-n), new(big.Int))
	return q, exp + (d - n), sticky || r.Sign() != 0
}

// ------------------------------------------------------------------ ratio

type ExRat struct {
	Neg      bool
	Num, Den *big.Int // > 0
	Exp      int64
}

func (x ExRat) IsNeg() bool { return x.Neg }
func (x ExRat) String() string {
	return fmt.Sprintf("(%s / %s)e%d", Val{Finite, x.Neg, x.Num, 0}.String(), Val{Finite, false, x.Den, 0}.String(), x.Exp)
}
func (x ExRat) LeadExp() int64 {
	// Num/Den in (10^(dn-dd-1), 10^(dn-dd+1))
	dn, dd := Digits(x.Num), Digits(x.Den)
	// compare Num with Den x 10^(dn-dd): same digit count
	var c int
	if dn >= dd {
		c = x.Num.Cmp(new(big.Int).Mul(x.Den, Pow10(dn-dd)))
	} else {
		c = new(big.Int).Mul(x.Num, Pow10(dd-dn)).Cmp(x.Den)
	}
	if c >= 0 { // Num/Den >= 10^(dn-dd)
		return dn - dd + 1 + x.Exp
	}
	return dn - dd + x.Exp
}
func (x ExRat) Trunc(n int64) (*big.Int, int64, bool) {
	dn, dd := Digits(x.Num), Digits(x.Den)
	k := n + dd - dn + 1
	num, den := x.Num, x.Den
	if k >= 0 {
		num = new(big.Int).Mul(num, Pow10(k))
	} else {
		den = new(big.Int).Mul(den, Pow10(-k))
	}
	q, r := new(big.Int).QuoRem(num, den, new(big.Int))
	return truncInt(q, x.Exp-k, n, r.Sign() != 0)
}
func (x ExRat) CmpMag(c *big.Int, e int64) int {
	lc, lv := Digits(c)+e, x.LeadExp()
	if lc != lv {
		if lc < lv {
			return -1
		}
		return 1
	}
	// sign(c x 10^e x Den - Num x 10^Exp)
	a := new(big.Int).Mul(c, x.Den)
	return CmpMagDec(a, e, x.Num, x.Exp)
}

// ------------------------------------------------------------ square root

// ExSqrt is sqrt(Coef x 10^Exp).
type ExSqrt struct {
	Coef *big.Int
	Exp  int64
}

func (x ExSqrt) IsNeg() bool    { return false }
func (x ExSqrt) String() string { return "sqrt(" + Val{Finite, false, x.Coef, x.Exp}.String() + ")" }
func (x ExSqrt) LeadExp() int64 {
	// radicand in [10^(L-1), 10^L)  =>  root in [10^((L-1)/2), 10^(L/2))
	l := Digits(x.Coef) + x.Exp
	// root lead exponent E satisfies 10^(E-1) <= root < 10^E  <=>  10^(2E-2) <= radicand < 10^(2E)
	// L-1 >= 2E-2 and L <= 2E  => E = ceil(L/2)
	if l >= 0 {
		return (l + 1) / 2
	}
	return -((-l) / 2)
}
func (x ExSqrt) Trunc(n int64) (*big.Int, int64, bool) {
	d := Digits(x.Coef)
	// want digits(Coef x 10^k) >= 2n+2 and (Exp - k) even
	k := 2*n + 2 - d
	if k < 0 {
		k = 0
	}
	if (x.Exp-k)%2 != 0 {
		k++
	}
	r := new(big.Int).Mul(x.Coef, Pow10(k))
	root := new(big.Int).Sqrt(r)
	sticky := new(big.Int).Mul(root, root).Cmp(r) != 0
	return truncInt(root, (x.Exp-k)/2, n, sticky)
}
func (x ExSqrt) CmpMag(c *big.Int, e int64) int {
	return CmpMagDec(new(big.Int).Mul(c, c), 2*e, x.Coef, x.Exp)
}

// ------------------------------------------------------------- model #1

// Result is what an operation is expected to leave in its receiver.
type Result struct {
	V   Val
	Acc int // -1 Below, 0 Exact, +1 Above
}

func accOf(above bool) int {
	if above {
		return 1
	}
	return -1
}

// RoundOnce rounds the exact non-zero value ex once to p >= 1 significant digits
// under mode, then applies the range rule as the properties state it: an exact
// magnitude below 10^(MinExp-1) gives a zero of that sign, a rounded magnitude
// reaching 10^MaxExp an infinity.
func RoundOnce(ex Exact, p int64, mode int) Result {
	neg := ex.IsNeg()
	le := ex.LeadExp()
	if le < MinExp {
		return Result{Val{Form: Zero, Neg: neg}, accOf(neg)}
	}
	if le > MaxExp {
		return Result{Val{Form: Inf, Neg: neg}, accOf(!neg)}
	}
	if d, ok := ex.(ExDec); ok {
		if Digits(d.Coef) <= p {
			return Result{Val{Finite, neg, d.Coef, d.Exp}, 0}
		}
	}
	t, e, sticky := ex.Trunc(p + 1)
	q, rdw := new(big.Int).QuoRem(t, bigTen, new(big.Int))
	rd := rdw.Int64()
	e++
	if rd == 0 && !sticky {
		return Result{Val{Finite, neg, q, e}, 0}
	}
	inc := false
	switch mode {
	case ToNearestEven:
		inc = rd > 5 || (rd == 5 && (sticky || q.Bit(0) == 1))
	case ToNearestAway:
		inc = rd >= 5
	case ToZero:
	case AwayFromZero:
		inc = true
	case ToNegativeInf:
		inc = neg
	case ToPositiveInf:
		inc = !neg
	default:
		panic("oracle: bad mode")
	}
	if inc {
		q.Add(q, bigOne)
		if q.Cmp(Pow10(p)) == 0 {
			q = new(big.Int).Set(Pow10(p - 1))
			e++
		}
	}
	acc := accOf(inc != neg)
	if p+e > MaxExp {
		return Result{Val{Form: Inf, Neg: neg}, accOf(!neg)}
	}
	return Result{Val{Finite, neg, q, e}, acc}
}

// ------------------------------------------------------------- model #2

// DefCheck decides from the definition of correct rounding whether the stored
// value s is a legitimate result for the exact non-zero value ex at precision p
// under mode (first result, "" when it is), and separately whether the reported
// accuracy acc equals sign(stored - exact) (second result, "" when it does).
// It does not use RoundOnce or Trunc: only magnitude comparisons.
func DefCheck(ex Exact, s Val, acc int, p int64, mode int) (valueMsg, accMsg string) {
	truth := TrueAcc(ex, s)
	if acc != truth {
		accMsg = fmt.Sprintf("acc=%d but sign(stored - exact)=%d", acc, truth)
	}
	return defValue(ex, s, p, mode), accMsg
}

// TrueAcc is sign(stored - exact), with infinities as +-oo and zeros as 0.
func TrueAcc(ex Exact, s Val) int {
	switch s.Form {
	case Zero:
		return accOf(ex.IsNeg())
	case Inf:
		return accOf(!s.Neg)
	}
	if s.Coef.Sign() == 0 {
		return accOf(ex.IsNeg())
	}
	if s.Neg != ex.IsNeg() {
		return accOf(!s.Neg)
	}
	c := ex.CmpMag(s.Coef, s.Exp)
	if s.Neg {
		return -c
	}
	return c
}

func defValue(ex Exact, s Val, p int64, mode int) string {
	neg := ex.IsNeg()
	if s.Neg != neg {
		return "sign differs from the sign of the exact value"
	}
	// direction of rounding expressed on magnitudes
	const (
		near = iota
		magZero
		magAway
	)
	dir := near
	switch mode {
	case ToZero:
		dir = magZero
	case AwayFromZero:
		dir = magAway
	case ToNegativeInf:
		dir = magZero
		if neg {
			dir = magAway
		}
	case ToPositiveInf:
		dir = magAway
		if neg {
			dir = magZero
		}
	}
	le := ex.LeadExp()
	switch s.Form {
	case Zero:
		if le >= MinExp {
			return "zero stored although the exact magnitude is >= 10^(MinExp-1)"
		}
		return ""
	case Inf:
		if le > MaxExp {
			return ""
		}
		if le < MaxExp {
			return "infinity stored although the value is far below 10^MaxExp"
		}
		// le == MaxExp: largest finite p-digit number M = (10^p - 1) x 10^(MaxExp-p)
		m := new(big.Int).Sub(Pow10(p), bigOne)
		switch dir {
		case magZero:
			return "infinity stored in a truncating mode although |v| < 10^MaxExp"
		case magAway:
			if ex.CmpMag(m, MaxExp-p) < 0 { // M < |v|
				return ""
			}
			return "infinity stored although |v| <= largest finite value"
		default:
			// |v| >= M + ulp/2  (M is odd, a tie goes up in both nearest modes)
			mid := new(big.Int).Mul(m, bigTen)
			mid.Add(mid, bigFive)
			if ex.CmpMag(mid, MaxExp-p-1) <= 0 {
				return ""
			}
			return "infinity stored although |v| is nearer to the largest finite value"
		}
	}
	// finite
	if s.Coef.Sign() == 0 {
		return "finite value with a zero coefficient"
	}
	st := s.Strip()
	d := Digits(st.Coef)
	if d > p {
		return fmt.Sprintf("stored value has %d significant digits, precision is %d", d, p)
	}
	sl := st.LeadExp()
	if sl < MinExp || sl > MaxExp {
		return "stored exponent outside [MinExp, MaxExp]"
	}
	if le < MinExp {
		return "finite value stored although the exact magnitude is below 10^(MinExp-1)"
	}
	if xd, ok := ex.(ExDec); ok {
		// an exactly representable value must be stored as it is (this also keeps huge precisions cheap)
		if xs := (Val{Finite, xd.Neg, xd.Coef, xd.Exp}).Strip(); Digits(xs.Coef) <= p {
			if CmpMagDec(st.Coef, st.Exp, xs.Coef, xs.Exp) != 0 {
				return "the exact value is representable at this precision but something else was stored"
			}
			return ""
		}
	}
	// S = coefficient scaled to exactly p digits, at exponent es
	S := new(big.Int).Mul(st.Coef, Pow10(p-d))
	es := st.Exp - (p - d)
	c := ex.CmpMag(S, es) // sign(|s| - |v|)
	if c == 0 {
		return ""
	}
	boundary := S.Cmp(Pow10(p-1)) == 0
	switch dir {
	case magZero:
		if c > 0 {
			return "magnitude rounded up in a truncating direction"
		}
		succ := new(big.Int).Add(S, bigOne)
		if ex.CmpMag(succ, es) <= 0 {
			return "stored magnitude is more than one unit below the exact one"
		}
	case magAway:
		if c < 0 {
			return "magnitude rounded down in an away-from-zero direction"
		}
		var pc *big.Int
		pe := es
		if boundary {
			pc = new(big.Int).Sub(Pow10(p), bigOne)
			pe = es - 1
		} else {
			pc = new(big.Int).Sub(S, bigOne)
		}
		if ex.CmpMag(pc, pe) >= 0 {
			return "stored magnitude is more than one unit above the exact one"
		}
	default:
		// upper midpoint (10S+5) x 10^(es-1)
		up := new(big.Int).Mul(S, bigTen)
		up.Add(up, bigFive)
		cu := ex.CmpMag(up, es-1)
		if cu < 0 {
			return "exact value lies above the upper midpoint: not nearest"
		}
		if cu == 0 { // tie, rounded down
			if mode == ToNearestAway {
				return "tie rounded toward zero in ToNearestAway"
			}
			if S.Bit(0) == 1 {
				return "tie rounded down to an odd last digit in ToNearestEven"
			}
		}
		// lower midpoint
		var lo *big.Int
		lexp := es - 1
		if boundary {
			// between (10^p - 1) x 10^(es-1) and 10^p x 10^(es-1): (10^(p+1) - 5) x 10^(es-2)
			lo = new(big.Int).Sub(Pow10(p+1), bigFive)
			lexp = es - 2
		} else {
			lo = new(big.Int).Mul(S, bigTen)
			lo.Sub(lo, bigFive)
		}
		cl := ex.CmpMag(lo, lexp)
		if cl > 0 {
			return "exact value lies below the lower midpoint: not nearest"
		}
		if cl == 0 && !boundary { // tie, rounded up
			if mode == ToNearestEven && S.Bit(0) == 1 {
				return "tie rounded up to an odd last digit in ToNearestEven"
			}
		}
	}
	return ""
}

// RoundToPlace rounds the exact non-zero value ex to a multiple of 10^place under
// mode (the quantize operation formatting needs). The result is a zero of the
// value's sign, or a finite value; acc as in RoundOnce. No range rule is applied.
func RoundToPlace(ex Exact, place int64, mode int) Result {
	neg := ex.IsNeg()
	l := ex.LeadExp()
	if l > place {
		if d, ok := ex.(ExDec); ok && d.Exp >= place {
			return Result{Val{Finite, neg, d.Coef, d.Exp}, 0}
		}
		t, e, sticky := ex.Trunc(l - place + 1)
		q, rdw := new(big.Int).QuoRem(t, bigTen, new(big.Int))
		rd := rdw.Int64()
		e++
		if rd == 0 && !sticky {
			return Result{Val{Finite, neg, q, e}, 0}
		}
		if roundsUp(mode, neg, rd, sticky, q.Bit(0) == 1) {
			q.Add(q, bigOne)
			return Result{Val{Finite, neg, q, e}, accOf(!neg)}
		}
		return Result{Val{Finite, neg, q, e}, accOf(neg)}
	}
	// |v| < 10^place: 0 or one unit
	rd, sticky := int64(0), true
	if l == place {
		t, _, st := ex.Trunc(1)
		rd, sticky = t.Int64(), st
	}
	if roundsUp(mode, neg, rd, sticky, false) {
		return Result{Val{Finite, neg, big.NewInt(1), place}, accOf(!neg)}
	}
	return Result{Val{Form: Zero, Neg: neg}, accOf(neg)}
}

func roundsUp(mode int, neg bool, rd int64, sticky, odd bool) bool {
	switch mode {
	case ToNearestEven:
		return rd > 5 || (rd == 5 && (sticky || odd))
	case ToNearestAway:
		return rd >= 5
	case AwayFromZero:
		return true
	case ToNegativeInf:
		return neg
	case ToPositiveInf:
		return !neg
	}
	return false
}
