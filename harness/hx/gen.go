package hx

import (
	"math"
	"math/big"

	"verifharness/oracle"
)

// Tier-dependent size limits.
type Limits struct {
	MaxDigits  int // longest "long" operand
	LongPct    int // percentage of long operands
	MaxGap     int // largest exponent gap between addends (digits the library must materialise)
	MaxPrecGen int
}

func LimitsFor(tier string) Limits {
	if tier == "thorough" {
		return Limits{MaxDigits: 40000, LongPct: 2, MaxGap: 200000, MaxPrecGen: 40000}
	}
	return Limits{MaxDigits: 6000, LongPct: 1, MaxGap: 2000, MaxPrecGen: 6000}
}

var boundaryLens = []int{18, 19, 20, 37, 38, 39, 56, 57, 58, 75, 76, 77, 95, 114, 190, 191}

// Len picks an operand length in digits.
func (r *RNG) Len(l Limits) int {
	k := r.Intn(100)
	switch {
	case k < 45:
		return r.Range(1, 40)
	case k < 60:
		return boundaryLens[r.Intn(len(boundaryLens))]
	case k < 85:
		return r.Range(1, 120)
	case k < 100-l.LongPct:
		return r.Range(100, 400)
	default:
		return r.Range(400, l.MaxDigits)
	}
}

var edgeWords = []string{
	"0000000000000000000", "9999999999999999999", "9999999999999999998", "0000000000000000001",
	"5000000000000000000", "4999999999999999999", "5000000000000000001", "1000000000000000000",
	"0000000000000000002", "9000000000000000000", "0999999999999999999", "0000000001000000000",
	// floor and ceiling of B/k: where a divisor-scaling factor B/(v+1) and its look-alikes (B-1)/v part ways
	"3333333333333333333", "3333333333333333334", "1666666666666666666", "1666666666666666667",
	"1428571428571428571", "1111111111111111111", "2500000000000000000", "2000000000000000000",
	// binary boundaries: two valid words can sum to 2^64 - 1 or 2^64 (2^63 - 1, 2^63, 2^62, 2^64 - 10^19 and its neighbour)
	"9223372036854775807", "9223372036854775808", "4611686018427387904", "8446744073709551616", "8446744073709551615",
}

// Digits returns n decimal digits (first one non-zero) following one of the
// hostile patterns: uniform, runs of 9/0, one repeated digit, whole edge words.
func (r *RNG) Digits(n int) []byte {
	if n < 1 {
		n = 1
	}
	b := make([]byte, n)
	switch r.Intn(10) {
	case 0, 1, 2, 3: // uniform
		for i := range b {
			b[i] = '0' + byte(r.Intn(10))
		}
	case 4, 5: // runs of 9 and 0 of random length between uniform stretches
		for i := 0; i < n; {
			run := r.Range(1, 60)
			kind := r.Intn(4)
			for j := 0; j < run && i < n; j, i = j+1, i+1 {
				switch kind {
				case 0:
					b[i] = '9'
				case 1:
					b[i] = '0'
				default:
					b[i] = '0' + byte(r.Intn(10))
				}
			}
		}
	case 6: // repeated digit
		d := byte('0' + r.Intn(10))
		for i := range b {
			b[i] = d
		}
	case 7, 8: // edge words, aligned so that they are whole words of the mantissa when left-aligned
		off := r.Intn(19)
		if r.Chance(35) {
			off = 0 // the leading word is a whole edge word
		}
		for i := 0; i < n; {
			w := edgeWords[r.Intn(len(edgeWords))]
			if r.Chance(25) {
				w = ""
				for k := 0; k < 19; k++ {
					w += string(rune('0' + r.Intn(10)))
				}
			}
			for j := off; j < 19 && i < n; j, i = j+1, i+1 {
				b[i] = w[j]
			}
			off = 0
		}
	default: // sparse: mostly zeros with a few digits
		for i := range b {
			b[i] = '0'
		}
		for k := r.Range(1, 4); k > 0; k-- {
			b[r.Intn(n)] = '1' + byte(r.Intn(9))
		}
	}
	if b[0] == '0' {
		b[0] = '1' + byte(r.Intn(9))
	}
	return b
}

func CoefOf(d []byte) *big.Int {
	x, ok := new(big.Int).SetString(string(d), 10)
	if !ok || x.Sign() <= 0 {
		panic("gen: bad digit string " + string(d))
	}
	return x
}

// LeadExpClass picks the exponent of the leading digit: mostly small, sometimes
// large, sometimes within 64 of either end of the int32 range.
func (r *RNG) LeadExp() int64 {
	k := r.Intn(100)
	switch {
	case k < 55:
		return int64(r.Range(-40, 40))
	case k < 70:
		return int64(r.Range(-5000, 5000))
	case k < 78:
		return int64(r.Range(-100000000, 100000000))
	case k < 80:
		// where the exponent's own digit count changes: +-10^j and its neighbours
		e := int64(math.Pow10(r.Range(1, 9))) + int64(r.Range(-2, 2))
		if r.Bool() {
			e = -e
		}
		return e
	case k < 90:
		return oracle.MaxExp - int64(r.Intn(64))
	default:
		return oracle.MinExp + int64(r.Intn(64))
	}
}

// Finite returns a finite value of n digits whose leading digit has exponent le.
func (r *RNG) Finite(n int, le int64) oracle.Val {
	c := CoefOf(r.Digits(n))
	return oracle.Val{Form: oracle.Finite, Neg: r.Bool(), Coef: c, Exp: le - int64(n)}
}

// Prec picks a receiver precision given the number of digits the exact result
// is expected to have (0 = unknown).
func (r *RNG) Prec(hint int, l Limits) int64 {
	k := r.Intn(100)
	var p int
	switch {
	case k < 35:
		p = r.Range(1, 40)
	case k < 50:
		p = boundaryLens[r.Intn(len(boundaryLens))]
	case k < 80 && hint > 0:
		p = hint + r.Range(-3, 3)
	case k < 90:
		p = r.Range(1, 120)
	default:
		p = r.Range(1, 400)
	}
	if p < 1 {
		p = 1
	}
	if p > l.MaxPrecGen {
		p = l.MaxPrecGen
	}
	return int64(p)
}

// RoundAimed returns a digit string built as  kept(p digits) | r | tail  so that
// rounding to p digits hits ties, just-below/just-above ties, all-nines carries.
func (r *RNG) RoundAimed(p int) []byte {
	kept := r.Digits(p)
	switch r.Intn(5) {
	case 0: // all nines: carry into the exponent
		for i := range kept {
			kept[i] = '9'
		}
	case 1: // trailing nines
		for i := p - 1; i >= 0 && i >= p-r.Range(1, 25); i-- {
			kept[i] = '9'
		}
	case 2: // even last digit
		kept[p-1] = '0' + byte(2*r.Intn(5))
	case 3: // odd last digit
		kept[p-1] = '1' + byte(2*r.Intn(5))
	}
	if kept[0] == '0' {
		kept[0] = '1'
	}
	rd := "0455569"[r.Intn(7)]
	tl := r.Range(0, 45)
	tail := make([]byte, tl)
	kind := r.Intn(6)
	for i := range tail {
		switch kind {
		case 0:
			tail[i] = '0'
		case 1:
			tail[i] = '0'
			if i == tl-1 {
				tail[i] = '1'
			}
		case 2:
			tail[i] = '9'
		case 3:
			tail[i] = '0' + byte(r.Intn(10))
		case 4:
			tail[i] = '0'
			if i == 0 {
				tail[i] = '5'
			}
		default:
			tail[i] = '9'
			if i == 0 {
				tail[i] = '4'
			}
		}
	}
	out := append(kept, rd)
	return append(out, tail...)
}
