//go:build verif

package hx

import "github.com/db47h/decimal"

// staleAcc gives d the accuracy an inexact operation would have left (the library's verif hooks expose the field).
func staleAcc(d *decimal.Decimal, acc int) {
	raw := decimal.VerifGetRaw(d)
	raw.Acc = decimal.Accuracy(acc)
	decimal.VerifSetRaw(d, raw)
}
