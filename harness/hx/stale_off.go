//go:build !verif

package hx

import "github.com/db47h/decimal"

// staleAcc needs the library's verif hooks: without them (the driver's build) operands keep their accuracy.
func staleAcc(d *decimal.Decimal, acc int) {}
