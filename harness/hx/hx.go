// Package hx holds what every engine of the worker shares: the per-case PRNG,
// construction of library values from oracle values and their read-back, the
// run context that counts evaluations / classes / distinct cases and records
// violations, and crash attribution through a memory-mapped "last case" file.
package hx

import (
	"encoding/binary"
	"encoding/json"
	"fmt"
	"hash/fnv"
	"math/big"
	"os"
	"runtime/debug"
	"sort"
	"strings"
	"syscall"
	"time"

	"github.com/db47h/decimal"

	"verifharness/oracle"
)

// ------------------------------------------------------------------ PRNG

// RNG is splitmix64: O(1) seeding, so that every case owns a generator that is
// a pure function of (VERIF_SEED, property, case index) and can be replayed alone.
type RNG struct{ s uint64 }

func NewRNG(seed int64, prop string, idx int64) *RNG {
	h := fnv.New64a()
	var b [16]byte
	binary.LittleEndian.PutUint64(b[:8], uint64(seed))
	binary.LittleEndian.PutUint64(b[8:], uint64(idx))
	h.Write(b[:])
	h.Write([]byte(prop))
	r := &RNG{h.Sum64()}
	r.U64()
	return r
}

func (r *RNG) U64() uint64 {
	r.s += 0x9e3779b97f4a7c15
	z := r.s
	z = (z ^ (z >> 30)) * 0xbf58476d1ce4e5b9
	z = (z ^ (z >> 27)) * 0x94d049bb133111eb
	return z ^ (z >> 31)
}

// Intn returns a value in [0, n).
func (r *RNG) Intn(n int) int {
	if n <= 1 {
		return 0
	}
	return int(r.U64() % uint64(n))
}

// Range returns a value in [lo, hi].
func (r *RNG) Range(lo, hi int) int { return lo + r.Intn(hi-lo+1) }

func (r *RNG) I64n(n int64) int64 {
	if n <= 1 {
		return 0
	}
	return int64(r.U64() % uint64(n))
}
func (r *RNG) Bool() bool          { return r.U64()&1 == 1 }
func (r *RNG) Chance(pct int) bool { return r.Intn(100) < pct }
func (r *RNG) Mode() int           { return r.Intn(6) }

// ------------------------------------------------- library <-> oracle values

// Read converts a library value to an oracle value through the public accessors only.
func Read(d *decimal.Decimal) oracle.Val {
	neg := d.Signbit()
	if d.IsInf() {
		return oracle.Val{Form: oracle.Inf, Neg: neg}
	}
	if d.IsZero() {
		return oracle.Val{Form: oracle.Zero, Neg: neg}
	}
	m, e := d.BitsExp()
	w := make([]uint, len(m))
	for i, x := range m {
		w[i] = uint(x)
	}
	return oracle.Val{Form: oracle.Finite, Neg: neg, Coef: oracle.FromWords(w), Exp: int64(e) - 19*int64(len(m))}
}

// State is everything observable about a Decimal.
type State struct {
	V    oracle.Val
	Prec uint
	Mode int
	Acc  int
	Raw  []uint // mantissa words as stored (finite only)
	RawE int32
}

func Snapshot(d *decimal.Decimal) State {
	s := State{V: Read(d), Prec: d.Prec(), Mode: int(d.Mode()), Acc: int(d.Acc())}
	if s.V.Form == oracle.Finite {
		m, e := d.BitsExp()
		s.Raw = make([]uint, len(m))
		for i, x := range m {
			s.Raw[i] = uint(x)
		}
		s.RawE = e
	}
	return s
}

// SameState reports bit-identity of two snapshots (value, sign, prec, mode, acc, raw words).
func SameState(a, b State) bool {
	if a.Prec != b.Prec || a.Mode != b.Mode || a.Acc != b.Acc || a.V.Form != b.V.Form || a.V.Neg != b.V.Neg {
		return false
	}
	if a.V.Form != oracle.Finite {
		return true
	}
	if a.RawE != b.RawE || len(a.Raw) != len(b.Raw) {
		return false
	}
	for i := range a.Raw {
		if a.Raw[i] != b.Raw[i] {
			return false
		}
	}
	return true
}

func (s State) String() string {
	return fmt.Sprintf("{%s prec=%d mode=%s acc=%d}", s.V.String(), s.Prec, oracle.ModeNames[s.Mode%6], s.Acc)
}

// Mk builds a library value equal to v with at least the given precision
// (raised to the digit count of v so that nothing is rounded) and the given mode.
// The result is verified by reading it back; a mismatch panics with MkError
// (operand construction is not what the calling engine is judging).
func Mk(v oracle.Val, prec uint, mode int) *decimal.Decimal {
	d := new(decimal.Decimal)
	switch v.Form {
	case oracle.Zero:
		if prec == 0 {
			prec = 1
		}
		d.SetPrec(prec).SetMode(decimal.RoundingMode(mode))
		if v.Neg {
			d.Neg(d)
		}
	case oracle.Inf:
		if prec == 0 {
			prec = 1
		}
		d.SetPrec(prec).SetMode(decimal.RoundingMode(mode)).SetInf(v.Neg)
	default:
		w := oracle.ToWords(v.Coef, 0)
		dg := uint(oracle.Digits(v.Coef))
		if prec < dg {
			prec = dg
		}
		ww := make([]decimal.Word, len(w))
		for i, x := range w {
			ww[i] = decimal.Word(x)
		}
		d.SetPrec(prec).SetMode(decimal.RoundingMode(mode)).SetBitsExp(ww, v.Exp+19*int64(len(w)))
		if v.Neg {
			d.Neg(d)
		}
	}
	if got := Read(d); !oracle.Equal(got, v) || d.Prec() != prec || int(d.Mode()) != mode {
		panic(MkError{fmt.Sprintf("built %s prec=%d, wanted %s prec=%d", got, d.Prec(), v, prec)})
	}
	return d
}

// MkR is Mk, except that a zero or an infinity is, six times out of ten, built in a variable that held a finite value
// before (leftover mantissa words and exponent, anywhere in the exponent range): whatever a special value held
// before must never show.
func MkR(r *RNG, v oracle.Val, prec uint, mode int) *decimal.Decimal {
	d := mkR(r, v, prec, mode)
	if r != nil && r.Chance(25) {
		// like the result of an inexact operation: the accuracy of an operand is Below or Above (it says how the
		// operand came about and must not influence anything computed from it)
		staleAcc(d, 1-2*r.Intn(2))
	}
	return d
}

// MkLong returns v in a variable of precision prec whose mantissa is k words longer than that precision needs (the
// extra low words are zero). Rounding never leaves such a mantissa behind, decoding does: GobDecode stores a payload
// with zero low words as it comes. The value is an ordinary one - nothing may depend on the length of a mantissa.
func MkLong(v oracle.Val, prec uint, mode int, k int) *decimal.Decimal {
	dg := uint(oracle.Digits(v.Coef))
	if prec < dg {
		prec = dg
	}
	words := (int64(prec)+18)/19 + int64(k)
	pad := 19*words - int64(dg)
	a := Mk(oracle.Val{Form: oracle.Finite, Neg: v.Neg, Coef: new(big.Int).Mul(v.Coef, oracle.Pow10(pad)), Exp: v.Exp - pad}, uint(19*words), mode)
	b, err := a.GobEncode()
	if err != nil {
		panic(MkError{"GobEncode: " + err.Error()})
	}
	binary.BigEndian.PutUint32(b[2:], uint32(prec))
	d := new(decimal.Decimal)
	if err := d.GobDecode(b); err != nil {
		panic(MkError{"GobDecode of a payload with zero low words: " + err.Error()})
	}
	if got := Read(d); !oracle.Equal(got, v) || d.Prec() != prec || int(d.Mode()) != mode {
		panic(MkError{fmt.Sprintf("built %s prec=%d, wanted %s prec=%d (long mantissa)", got, d.Prec(), v, prec)})
	}
	return d
}

func mkR(r *RNG, v oracle.Val, prec uint, mode int) *decimal.Decimal {
	if v.Form == oracle.Finite && r != nil && prec < 1<<20 && r.Chance(3) {
		return MkLong(v, prec, mode, r.Range(1, 3))
	}
	if v.Form == oracle.Finite || r == nil || !r.Chance(60) {
		return Mk(v, prec, mode)
	}
	if prec == 0 {
		prec = 1
	}
	w := r.Finite(r.Range(1, 60), r.LeadExp())
	if r.Chance(30) {
		w.Exp = int64(r.Range(-1, 1)) - oracle.Digits(w.Coef) // leading exponent -1, 0 or 1: the leftover exponent field is 0 or next to it
	}
	d := Mk(w, prec, mode)
	if v.Form == oracle.Zero {
		switch r.Intn(3) {
		case 0:
			d.SetUint64(0)
		case 1:
			d.Sub(d, d)
			d.Abs(d)
		default:
			d.Mul(d, new(decimal.Decimal))
			d.Abs(d)
		}
		if v.Neg {
			d.Neg(d)
		}
	} else {
		d.SetInf(v.Neg)
	}
	d.SetPrec(prec).SetMode(decimal.RoundingMode(mode))
	if got := Read(d); !oracle.Equal(got, v) || d.Prec() != prec {
		panic(MkError{fmt.Sprintf("built %s prec=%d, wanted %s prec=%d (stale special)", got, d.Prec(), v, prec)})
	}
	return d
}

type MkError struct{ Msg string }

func (e MkError) Error() string { return "operand construction failed: " + e.Msg }

// ------------------------------------------------------------- run context

type Violation struct {
	Prop   string `json:"property"`
	Idx    int64  `json:"case"`
	Kind   string `json:"kind"`
	Detail string `json:"detail"`
	KF     string `json:"known_finding,omitempty"` // name of the known-finding predicate the case satisfies
}

// Summary is what a worker shard reports to the driver.
type Summary struct {
	Prop        string            `json:"property"`
	Tier        string            `json:"tier"`
	Seed        int64             `json:"seed"`
	Shard       int               `json:"shard"`
	Evals       int64             `json:"evaluations"`
	Nontrivial  int64             `json:"nontrivial"`
	Classes     map[string]int64  `json:"classes"`
	Counters    map[string]int64  `json:"counters"`
	Samples     []string          `json:"samples"`
	Violations  []Violation       `json:"violations"`
	NViol       int64             `json:"n_violations"`
	KnownHits   map[string]int64  `json:"known_hits"`
	KnownSample map[string]string `json:"known_samples"`
	Inconcl     []string          `json:"inconclusive"`
	Skipped     int64             `json:"skipped"`
	Notes       []string          `json:"notes"`
	WallS       float64           `json:"wall_s"`
	Done        bool              `json:"done"`
	Digests     map[string]string `json:"digests,omitempty"` // transcript chunk digests (must agree across build variants)
}

type Ctx struct {
	Summary
	NShards   int
	Verbose   bool // replay mode: print everything
	DumpChunk int  // transcript chunk to print (-1: none)
	distinct  map[uint64]struct{}
	idx       int64
	last      []byte // mmap'd last-case buffer
	hashPath  string
	start     time.Time
	classSmp  map[string]bool
	journal   *os.File // violations as they are found (JSON lines): what a child observed before it died is not lost
	nJournal  int
}

func NewCtx(prop, tier string, seed int64, shard, nshards int, outBase string) *Ctx {
	c := &Ctx{NShards: nshards, DumpChunk: -1, distinct: map[uint64]struct{}{}, start: time.Now(), classSmp: map[string]bool{}}
	c.Prop, c.Tier, c.Seed, c.Shard = prop, tier, seed, shard
	c.Classes = map[string]int64{}
	c.Counters = map[string]int64{}
	c.KnownHits = map[string]int64{}
	c.KnownSample = map[string]string{}
	if outBase != "" {
		c.hashPath = outBase + ".hashes"
		c.journal, _ = os.OpenFile(outBase+".viol", os.O_WRONLY|os.O_CREATE|os.O_TRUNC, 0o644)
		f, err := os.OpenFile(outBase+".last", os.O_RDWR|os.O_CREATE|os.O_TRUNC, 0o644)
		if err == nil {
			f.Truncate(4096)
			if m, err := syscall.Mmap(int(f.Fd()), 0, 4096, syscall.PROT_READ|syscall.PROT_WRITE, syscall.MAP_SHARED); err == nil {
				c.last = m
			}
			f.Close()
		}
	}
	return c
}

// Begin records the case about to be executed (crash attribution).
func (c *Ctx) Begin(idx int64, what string) {
	c.idx = idx
	if c.last != nil {
		s := fmt.Sprintf("%s case=%d %s", c.Prop, idx, what)
		if len(s) > 4000 {
			s = s[:4000]
		}
		n := copy(c.last, s)
		c.last[n] = 0
	}
}

// Note refines the description of the running case in the last-case buffer.
func (c *Ctx) Note(what string) { c.Begin(c.idx, what) }

func (c *Ctx) Idx() int64 { return c.idx }

func HashStr(s string) uint64 {
	h := fnv.New64a()
	h.Write([]byte(s))
	return h.Sum64()
}

// Eval counts one evaluated case. key identifies the case for the distinct count
// (only non-trivial cases are entered into the set); class feeds the histogram.
func (c *Ctx) Eval(key uint64, nontrivial bool, class string) {
	c.Evals++
	if class != "" {
		c.Classes[class]++
	}
	if nontrivial {
		c.Nontrivial++
		c.distinct[key] = struct{}{}
	}
}

func (c *Ctx) Count(name string, n int64) { c.Counters[name] += n }

// Sample keeps a written-out case: the first of every class, up to a bound.
func (c *Ctx) Sample(class, desc string) {
	if c.classSmp[class] || len(c.Samples) >= 24 {
		return
	}
	c.classSmp[class] = true
	if len(desc) > 600 {
		desc = desc[:600] + "..."
	}
	c.Samples = append(c.Samples, fmt.Sprintf("[%s #%d] %s", class, c.idx, desc))
}

func (c *Ctx) WantSample(class string) bool { return !c.classSmp[class] && len(c.Samples) < 24 }

// Violate records a violation of the running property by the running case.
// kf names the known-finding predicate the case satisfies ("" if none).
func (c *Ctx) Violate(kind, detail, kf string) {
	if c.Verbose {
		fmt.Printf("  -> %s: %s (known-finding predicate: %q)\n", kind, detail, kf)
	}
	if kf != "" {
		c.KnownHits[kf]++
		if _, ok := c.KnownSample[kf]; !ok {
			c.KnownSample[kf] = fmt.Sprintf("case %d: %s: %s", c.idx, kind, trunc(detail, 500))
		}
		// still recorded (first few) so that the driver can print it if the entry is not open
	}
	if kf == "" && c.journal != nil && c.nJournal < 20 {
		c.nJournal++
		if b, err := json.Marshal(Violation{c.Prop, c.idx, kind, trunc(detail, 3000), kf}); err == nil {
			c.journal.Write(append(b, '\n'))
		}
	}
	c.NViol++
	if len(c.Violations) < 40 || (kf == "" && len(c.Violations) < 80) {
		c.Violations = append(c.Violations, Violation{c.Prop, c.idx, kind, trunc(detail, 3000), kf})
	}
}

func trunc(s string, n int) string {
	if len(s) > n {
		return s[:n] + "..."
	}
	return s
}

func (c *Ctx) Inconclusive(msg string) {
	if c.Verbose {
		fmt.Println("  -> INCONCLUSIVE:", msg)
	}
	if len(c.Inconcl) < 20 {
		c.Inconcl = append(c.Inconcl, fmt.Sprintf("case %d: %s", c.idx, trunc(msg, 1000)))
	}
}

func (c *Ctx) Skip() { c.Skipped++ }

func (c *Ctx) Notef(f string, a ...interface{}) {
	if len(c.Notes) < 30 {
		c.Notes = append(c.Notes, fmt.Sprintf(f, a...))
	}
}

// Finish writes the summary (JSON) and the distinct-hash file.
func (c *Ctx) Finish(outBase string) {
	c.WallS = time.Since(c.start).Seconds()
	c.Done = true
	if outBase == "" {
		b, _ := json.MarshalIndent(c.Summary, "", " ")
		fmt.Println(string(b))
		return
	}
	hs := make([]uint64, 0, len(c.distinct))
	for k := range c.distinct {
		hs = append(hs, k)
	}
	sort.Slice(hs, func(i, j int) bool { return hs[i] < hs[j] })
	buf := make([]byte, 8*len(hs))
	for i, h := range hs {
		binary.LittleEndian.PutUint64(buf[8*i:], h)
	}
	os.WriteFile(c.hashPath, buf, 0o644)
	b, _ := json.Marshal(c.Summary)
	os.WriteFile(outBase+".json", b, 0o644)
}

// ------------------------------------------------------------- panics

type PanicInfo struct {
	Val   interface{}
	IsNaN bool
	Class string // "ErrNaN", "runtime", "string", "error", "other"
	Text  string
	Stack string
}

// Try runs f and reports the panic it raised, if any.
func Try(f func()) (pi *PanicInfo) {
	defer func() {
		if r := recover(); r != nil {
			pi = Classify(r)
			pi.Stack = shortStack()
		}
	}()
	f()
	return nil
}

func Classify(r interface{}) *PanicInfo {
	pi := &PanicInfo{Val: r}
	switch v := r.(type) {
	case decimal.ErrNaN:
		pi.IsNaN, pi.Class, pi.Text = true, "ErrNaN", v.Error()
	case MkError:
		pi.Class, pi.Text = "mk", v.Error()
	case oracle.CostError:
		pi.Class, pi.Text = "cost", v.Error()
	case interface{ RuntimeError() }:
		pi.Class, pi.Text = "runtime", fmt.Sprint(r)
	case error:
		pi.Class, pi.Text = "error", v.Error()
	case string:
		pi.Class, pi.Text = "string", v
	default:
		pi.Class, pi.Text = "other", fmt.Sprint(r)
	}
	return pi
}

func shortStack() string {
	s := string(debug.Stack())
	lines := strings.Split(s, "\n")
	var out []string
	for _, l := range lines {
		if strings.Contains(l, "/repo/") || strings.Contains(l, "db47h/decimal") {
			out = append(out, strings.TrimSpace(l))
		}
		if len(out) >= 12 {
			break
		}
	}
	return strings.Join(out, " | ")
}

// --------------------------------------------------------------- misc

func BigStr(x *big.Int) string {
	s := x.String()
	if len(s) > 60 {
		return fmt.Sprintf("%s...%s(%d digits)", s[:25], s[len(s)-25:], len(s))
	}
	return s
}

// ------------------------------------------------------ invariant walker

// WordBase is the decimal word base 10^19.
const WordBase = 10000000000000000000

const wordBase = WordBase

// Canonical checks the representation invariant of C08 on one value through the
// public accessors; it returns "" when the value is canonical.
func Canonical(d *decimal.Decimal) string {
	if md := int(d.Mode()); md < 0 || md > 5 {
		return fmt.Sprintf("rounding mode %d is not one of the six modes", md)
	}
	if a := int(d.Acc()); a < -1 || a > 1 {
		return fmt.Sprintf("accuracy %d is not Below/Exact/Above", a)
	}
	m, _ := d.BitsExp()
	if d.IsInf() || d.IsZero() {
		if d.IsInf() && d.IsZero() {
			return "value claims to be both zero and infinite"
		}
		if len(m) != 0 {
			return "zero/infinity exposes a mantissa"
		}
		if d.MinPrec() != 0 {
			return fmt.Sprintf("zero/infinity has MinPrec %d", d.MinPrec())
		}
		if e := d.MantExp(nil); e != 0 {
			return fmt.Sprintf("zero/infinity has MantExp %d", e)
		}
		// a zero or infinity carries only a sign: whatever it held before must not show
		want := "0"
		switch {
		case d.IsInf() && d.Signbit():
			want = "-Inf"
		case d.IsInf():
			want = "+Inf"
		case d.Signbit():
			want = "-0"
		}
		if got := d.Text('g', -1); got != want {
			return fmt.Sprintf("zero/infinity prints as %q, want %q (leftover state shows)", got, want)
		}
		if d.IsZero() {
			for _, f := range []struct {
				ft   byte
				want string
			}{{'e', "0e+00"}, {'p', "0"}, {'b', "0"}, {'f', "0"}} {
				w := f.want
				if d.Signbit() {
					w = "-" + w
				}
				if got := d.Text(f.ft, -1); got != w {
					return fmt.Sprintf("zero prints as %q in format %c, want %q (leftover state shows)", got, f.ft, w)
				}
			}
		}
		return ""
	}
	if len(m) == 0 {
		return "finite value with an empty mantissa"
	}
	for i, w := range m {
		if uint64(w) >= wordBase {
			return fmt.Sprintf("mantissa word %d = %d is not below the word base", i, uint64(w))
		}
	}
	top := uint64(m[len(m)-1])
	if top < wordBase/10 {
		return fmt.Sprintf("leading mantissa word %d has a zero leading digit (not normalized)", top)
	}
	mp := d.MinPrec()
	if mp < 1 {
		return "finite value with MinPrec 0"
	}
	if d.Prec() == 0 {
		return "finite value with precision 0"
	}
	if mp > d.Prec() {
		return fmt.Sprintf("MinPrec %d exceeds Prec %d (digits beyond the precision)", mp, d.Prec())
	}
	return ""
}

// ------------------------------------------------------------ raw snapshots

// Raw is a cheap bit-level snapshot of a Decimal (no big.Int conversion).
type Raw struct {
	Class int8 // 0 zero, 1 finite (or malformed), 2 inf
	Neg   bool
	Prec  uint
	Mode  int
	Acc   int
	Exp   int32
	W     []decimal.Word
}

func RawOf(d *decimal.Decimal) Raw {
	r := Raw{Neg: d.Signbit(), Prec: d.Prec(), Mode: int(d.Mode()), Acc: int(d.Acc())}
	m, e := d.BitsExp()
	r.Exp = e // for zeros and infinities this is a leftover field: recorded, never compared
	switch {
	case d.IsInf():
		r.Class = 2
	case d.IsZero():
		r.Class = 0
	default:
		r.Class = 1
		r.W = append([]decimal.Word(nil), m...)
	}
	return r
}

func (a Raw) Same(b Raw) bool {
	if a.Class != b.Class || a.Neg != b.Neg || a.Prec != b.Prec || a.Mode != b.Mode || a.Acc != b.Acc {
		return false
	}
	if a.Class != 1 {
		return true
	}
	if a.Exp != b.Exp || len(a.W) != len(b.W) {
		return false
	}
	for i := range a.W {
		if a.W[i] != b.W[i] {
			return false
		}
	}
	return true
}

// Identical is Same plus the leftover exponent field of a zero or an infinity (BitsExp shows it): two snapshots of a
// variable that no operation was entitled to write must be Identical, not just the same value.
func (a Raw) Identical(b Raw) bool { return a.Same(b) && a.Exp == b.Exp }

// Val converts the snapshot to an exact value.
func (a Raw) Val() oracle.Val {
	switch a.Class {
	case 0:
		return oracle.Val{Form: oracle.Zero, Neg: a.Neg}
	case 2:
		return oracle.Val{Form: oracle.Inf, Neg: a.Neg}
	}
	w := make([]uint, len(a.W))
	for i, x := range a.W {
		w[i] = uint(x)
	}
	return oracle.Val{Form: oracle.Finite, Neg: a.Neg, Coef: oracle.FromWords(w), Exp: int64(a.Exp) - 19*int64(len(a.W))}
}

// LeadExp is the decimal exponent of the leading digit (finite values).
func (a Raw) LeadExp() int64 { return int64(a.Exp) }

func (a Raw) String() string {
	sg := "+"
	if a.Neg {
		sg = "-"
	}
	switch a.Class {
	case 0:
		return fmt.Sprintf("{%s0 prec=%d mode=%d acc=%d}", sg, a.Prec, a.Mode, a.Acc)
	case 2:
		return fmt.Sprintf("{%sInf prec=%d mode=%d acc=%d}", sg, a.Prec, a.Mode, a.Acc)
	}
	return fmt.Sprintf("{%s0.%v e%d prec=%d mode=%d acc=%d}", sg, a.W, a.Exp, a.Prec, a.Mode, a.Acc)
}
