package hx

import (
	"syscall"
	"unsafe"

	"github.com/db47h/decimal"
)

// Arena is a run of data pages fenced by two inaccessible pages. Slices carved
// flush against a fence make an assembly kernel that reads or writes one word
// too far fault on the spot (the sanitizers do not instrument Go assembly).
type Arena struct {
	mem   []byte
	Words []decimal.Word // the accessible region
}

const arenaPage = 4096
const arenaDataPages = 2

func NewArena() *Arena { return NewArenaPages(arenaDataPages) }

// NewArenaPages is NewArena with a chosen number of data pages (512 words each).
func NewArenaPages(dataPages int) *Arena {
	total := (dataPages + 2) * arenaPage
	mem, err := syscall.Mmap(-1, 0, total, syscall.PROT_READ|syscall.PROT_WRITE, syscall.MAP_ANON|syscall.MAP_PRIVATE)
	if err != nil {
		panic("arena: mmap: " + err.Error())
	}
	if err := syscall.Mprotect(mem[:arenaPage], syscall.PROT_NONE); err != nil {
		panic("arena: mprotect: " + err.Error())
	}
	if err := syscall.Mprotect(mem[total-arenaPage:], syscall.PROT_NONE); err != nil {
		panic("arena: mprotect: " + err.Error())
	}
	a := &Arena{mem: mem}
	a.Words = unsafe.Slice((*decimal.Word)(unsafe.Pointer(&mem[arenaPage])), dataPages*arenaPage/8)
	return a
}

// Canary is a value no mantissa word can have.
const Canary = decimal.Word(0xDEADBEEFCAFEF00D)

// Place returns a slice of n words (cap n) at the chosen position:
// 0 = flush against the upper fence, 1 = flush against the lower fence,
// 2 = in the middle with two canary words on each side.
func (a *Arena) Place(n int, where int) []decimal.Word {
	w := a.Words
	switch where {
	case 0:
		return w[len(w)-n : len(w) : len(w)]
	case 1:
		return w[0:n:n]
	}
	off := len(w)/2 - n/2
	s := w[off : off+n : off+n]
	w[off-1], w[off-2], w[off+n], w[off+n+1] = Canary, Canary, Canary, Canary
	return s
}

// CanariesIntact checks the canaries around a slice placed with where == 2.
func (a *Arena) CanariesIntact(n int) bool {
	w := a.Words
	off := len(w)/2 - n/2
	return w[off-1] == Canary && w[off-2] == Canary && w[off+n] == Canary && w[off+n+1] == Canary
}

// NewFarPair returns two arenas whose data regions lie exactly 4 GiB apart: a word of one and the word at the same
// offset in the other have addresses with identical low 32 bits (a kernel that compares or computes addresses in 32
// bits takes them for the same buffer). The span in between is reserved, never committed, and inaccessible.
func NewFarPair(dataPages int) (lo, hi *Arena, err error) {
	const gap = 1 << 32
	span := (dataPages + 2) * arenaPage
	mem, err := syscall.Mmap(-1, 0, gap+span, syscall.PROT_NONE, syscall.MAP_ANON|syscall.MAP_PRIVATE|syscall.MAP_NORESERVE)
	if err != nil {
		return nil, nil, err
	}
	mk := func(off int) (*Arena, error) {
		if err := syscall.Mprotect(mem[off+arenaPage:off+arenaPage+dataPages*arenaPage], syscall.PROT_READ|syscall.PROT_WRITE); err != nil {
			return nil, err
		}
		a := &Arena{mem: mem[off : off+span]}
		a.Words = unsafe.Slice((*decimal.Word)(unsafe.Pointer(&mem[off+arenaPage])), dataPages*arenaPage/8)
		return a, nil
	}
	if lo, err = mk(0); err != nil {
		return nil, nil, err
	}
	if hi, err = mk(gap); err != nil {
		return nil, nil, err
	}
	return lo, hi, nil
}

// SetReadOnly makes the arena's data pages read-only (or read-write again): a kernel that writes to an operand it is
// only supposed to read - even if it puts the old value back - faults on the spot.
func (a *Arena) SetReadOnly(ro bool) {
	prot := syscall.PROT_READ | syscall.PROT_WRITE
	if ro {
		prot = syscall.PROT_READ
	}
	data := a.mem[arenaPage : len(a.mem)-arenaPage]
	if err := syscall.Mprotect(data, prot); err != nil {
		panic("arena: mprotect: " + err.Error())
	}
}
