package hx

import (
	"syscall"
	"unsafe"

	"github.com/db47h/decimal"
)

// Arena is a run of data pages fenced by two inaccessible pages. Slices carved
// flush against a fence make an assembly kernel that reads or writes one word
// too far fault on the spot (the sanitizers do not instrument Go assembly).
type Arena struct {
	mem   []byte
	Words []decimal.Word // the accessible region
}

const arenaPage = 4096
const arenaDataPages = 2

func NewArena() *Arena {
	total := (arenaDataPages + 2) * arenaPage
	mem, err := syscall.Mmap(-1, 0, total, syscall.PROT_READ|syscall.PROT_WRITE, syscall.MAP_ANON|syscall.MAP_PRIVATE)
	if err != nil {
		panic("arena: mmap: " + err.Error())
	}
	if err := syscall.Mprotect(mem[:arenaPage], syscall.PROT_NONE); err != nil {
		panic("arena: mprotect: " + err.Error())
	}
	if err := syscall.Mprotect(mem[total-arenaPage:], syscall.PROT_NONE); err != nil {
		panic("arena: mprotect: " + err.Error())
	}
	a := &Arena{mem: mem}
	a.Words = unsafe.Slice((*decimal.Word)(unsafe.Pointer(&mem[arenaPage])), arenaDataPages*arenaPage/8)
	return a
}

// Canary is a value no mantissa word can have.
const Canary = decimal.Word(0xDEADBEEFCAFEF00D)

// Place returns a slice of n words (cap n) at the chosen position:
// 0 = flush against the upper fence, 1 = flush against the lower fence,
// 2 = in the middle with two canary words on each side.
func (a *Arena) Place(n int, where int) []decimal.Word {
	w := a.Words
	switch where {
	case 0:
		return w[len(w)-n : len(w) : len(w)]
	case 1:
		return w[0:n:n]
	}
	off := len(w)/2 - n/2
	s := w[off : off+n : off+n]
	w[off-1], w[off-2], w[off+n], w[off+n+1] = Canary, Canary, Canary, Canary
	return s
}

// CanariesIntact checks the canaries around a slice placed with where == 2.
func (a *Arena) CanariesIntact(n int) bool {
	w := a.Words
	off := len(w)/2 - n/2
	return w[off-1] == Canary && w[off-2] == Canary && w[off+n] == Canary && w[off+n+1] == Canary
}
