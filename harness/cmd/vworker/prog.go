package main

import (
	"bytes"
	"encoding/gob"
	"fmt"
	"math"
	"math/big"
	"strings"
	"unsafe"

	"github.com/db47h/decimal"

	"verifharness/hx"
	"verifharness/oracle"
)

// The program engine: random sequences of public operations over a pool of
// variables with receivers reused and aliased. It serves the transcript digests
// of C07, the invariant walker of C08 and the attribute/operand monitor of C09.
// A step is a pure function of the VM's PRNG state, so a program can be replayed.

const nVars = 8

type progVM struct {
	r     *hx.RNG
	tier  string
	vars  [nVars]*decimal.Decimal
	nNaN  int
	nStep int
	// configuration
	mutatedGob bool         // also decode corrupted gob payloads (C08: accepted => canonical)
	note       func(string) // called with the step's description right before it executes (crash attribution)
}

type progStep struct {
	op    string
	z     int   // receiver variable (-1 none)
	args  []int // operand variables
	desc  string
	pi    *hx.PanicInfo
	nanOK bool // the operation is invalid: ErrNaN is the required outcome
	pre   [nVars]hx.Raw
	post  [nVars]hx.Raw
	aux   string // values returned by getters / errors
	// expectations for C09
	writes   []int  // variables the operation may modify
	modeRule string // "keep" | "copy:<mode>" | "any"
	precRule func(pre hx.Raw, got uint) string
	failed   bool          // the operation reported an error: receiver contents undefined (attributes not judged)
	argCheck func() string // "" when the math/big arguments are unchanged
	skipped  bool          // nothing executed (cost cap)
	kf       string        // known-finding predicate the step satisfies ("" if none)
}

func newProgVM(r *hx.RNG, tier string) *progVM {
	vm := &progVM{r: r, tier: tier}
	for i := range vm.vars {
		vm.vars[i] = new(decimal.Decimal)
	}
	// seed the pool with a few values
	vm.vars[0].SetPrec(20).SetInt64(12345)
	vm.vars[1].SetPrec(40).SetMode(decimal.ToZero).SetString("-0.000271828182845904523536028747135266249775724709369995")
	vm.vars[2].SetPrec(7).SetMode(decimal.ToPositiveInf).SetUint64(99999999)
	return vm
}

func (vm *progVM) snap() (s [nVars]hx.Raw) {
	for i, v := range vm.vars {
		s[i] = hx.RawOf(v)
	}
	return
}

func keepPrec(pre hx.Raw, got uint) string {
	if got != pre.Prec {
		return fmt.Sprintf("precision changed from %d to %d", pre.Prec, got)
	}
	return ""
}

// zeroPrec builds a rule: a non-zero precision is kept, a zero one becomes want (lo..hi).
func zeroPrec(lo, hi uint) func(hx.Raw, uint) string {
	return func(pre hx.Raw, got uint) string {
		if pre.Prec != 0 {
			return keepPrec(pre, got)
		}
		if got == 0 {
			return "" // left at 0: not a change (only possible for a zero or an infinity, which C08's walker enforces)
		}
		if got < lo || got > hi {
			if lo == hi {
				return fmt.Sprintf("precision 0 became %d, documented value is %d", got, lo)
			}
			return fmt.Sprintf("precision 0 became %d, documented value lies in [%d, %d]", got, lo, hi)
		}
		return ""
	}
}

func umax(a ...uint) uint {
	m := uint(0)
	for _, x := range a {
		if x > m {
			m = x
		}
	}
	return m
}

const progGapCap = 4000

func leadOf(r hx.Raw) int64 { return int64(r.Exp) }
func lowOf(r hx.Raw) int64  { return int64(r.Exp) - 19*int64(len(r.W)) }

// addCostly reports whether adding two finite values would materialise a large exponent gap.
func addCostly(a, b hx.Raw) bool {
	if a.Class != 1 || b.Class != 1 {
		return false
	}
	d := lowOf(a) - lowOf(b)
	if d < 0 {
		d = -d
	}
	return d > progGapCap
}

func (vm *progVM) genPrec() uint {
	switch k := vm.r.Intn(100); {
	case k < 8:
		return 0
	case k < 60:
		return uint(vm.r.Range(1, 40))
	case k < 93:
		return uint(vm.r.Range(1, 130))
	case k < 99:
		return uint(vm.r.Range(130, 700))
	default:
		if vm.tier == "thorough" {
			return uint(vm.r.Range(700, 6000))
		}
		return uint(vm.r.Range(700, 2500))
	}
}

func valueOfRaw(r hx.Raw) oracle.Val { return r.Val() }

func (vm *progVM) step() *progStep {
	r := vm.r
	vm.nStep++
	st := &progStep{z: r.Intn(nVars), modeRule: "keep", precRule: keepPrec}
	st.pre = vm.snap()
	z := vm.vars[st.z]
	st.writes = []int{st.z}
	pick := func() (int, *decimal.Decimal) { i := r.Intn(nVars); return i, vm.vars[i] }
	var f func()
	opPrecs := func(ix ...int) uint {
		m := uint(0)
		for _, i := range ix {
			m = umax(m, st.pre[i].Prec)
		}
		return m
	}
	op := r.Intn(100)
	// a receiver (or, for a precision-0 receiver, an operand) with a huge precision makes Quo, Sqrt and the
	// binary-exponent conversions allocate by precision: bring such a receiver back to a moderate precision first
	effPrec := st.pre[st.z].Prec
	if effPrec == 0 {
		for _, p := range st.pre {
			effPrec = umax(effPrec, p.Prec)
		}
	}
	if effPrec > 6500 {
		op = 40 // SetPrec
	}
	switch {
	case op < 9: // Add / Sub
		xi, x := pick()
		yi, y := pick()
		st.args = []int{xi, yi}
		if addCostly(st.pre[xi], st.pre[yi]) {
			st.skipped = true
			break
		}
		st.precRule = zeroPrec(opPrecs(xi, yi), opPrecs(xi, yi))
		if r.Bool() {
			st.op = "Add"
			st.nanOK = oracle.Add(classVal3(st.pre[xi]), classVal3(st.pre[yi]), 0).NaN
			f = func() { z.Add(x, y) }
		} else {
			st.op = "Sub"
			st.nanOK = oracle.Sub(classVal3(st.pre[xi]), classVal3(st.pre[yi]), 0).NaN
			f = func() { z.Sub(x, y) }
		}
	case op < 15:
		xi, x := pick()
		yi, y := pick()
		st.op, st.args = "Mul", []int{xi, yi}
		st.precRule = zeroPrec(opPrecs(xi, yi), opPrecs(xi, yi))
		st.nanOK = st.pre[xi].Class+st.pre[yi].Class == 2 && st.pre[xi].Class != 1
		f = func() { z.Mul(x, y) }
	case op < 21:
		xi, x := pick()
		yi, y := pick()
		st.op, st.args = "Quo", []int{xi, yi}
		st.precRule = zeroPrec(opPrecs(xi, yi), opPrecs(xi, yi))
		st.nanOK = (st.pre[xi].Class == 0 && st.pre[yi].Class == 0) || (st.pre[xi].Class == 2 && st.pre[yi].Class == 2)
		f = func() { z.Quo(x, y) }
	case op < 26:
		xi, x := pick()
		yi, y := pick()
		ui, u := pick()
		st.op, st.args = "FMA", []int{xi, yi, ui}
		st.precRule = zeroPrec(opPrecs(xi, yi, ui), opPrecs(xi, yi, ui))
		a, b, cc := st.pre[xi], st.pre[yi], st.pre[ui]
		if a.Class == 1 && b.Class == 1 && cc.Class == 1 {
			ple := leadOf(a) + leadOf(b)
			if ple >= oracle.MinExp-1 && ple <= oracle.MaxExp+1 {
				plow := lowOf(a) + lowOf(b)
				d := plow - lowOf(cc)
				if d < 0 {
					d = -d
				}
				if d > progGapCap {
					st.skipped = true
					break
				}
			}
		}
		if a.Class == 1 && b.Class == 1 && cc.Class != 0 { // (with a zero addend FMA is Mul, which saturates correctly: not part of D15)
			ple := leadOf(a) + leadOf(b) // the product's lead exponent is ple or ple-1
			if ple > oracle.MaxExp || ple-1 < oracle.MinExp {
				// the programs only look at panics here: the finding covers exactly the ErrNaN of Inf - Inf that the
				// saturated product provokes (any other panic in this class is a violation of its own)
				pk := &opCase{op: "FMA", x: a.Val(), y: b.Val(), u: cc.Val(), p: 1}
				if nan, _, ok := fmaKnownOutcome(pk); ok && nan {
					st.kf = "fma_product_exponent_out_of_range"
				}
			}
		}
		st.nanOK = oracle.FMA(classVal3(a), classVal3(b), classVal3(cc), 0).NaN
		f = func() { z.FMA(x, y, u) }
	case op < 30:
		xi, x := pick()
		st.op, st.args = "Sqrt", []int{xi}
		p := st.pre[st.z].Prec
		if p == 0 {
			p = st.pre[xi].Prec
		}
		if p > 900 || len(st.pre[xi].W) > 60 {
			st.skipped = true
			break
		}
		st.precRule = zeroPrec(st.pre[xi].Prec, st.pre[xi].Prec)
		st.nanOK = st.pre[xi].Neg && st.pre[xi].Class != 0
		f = func() { z.Sqrt(x) }
	case op < 36:
		xi, x := pick()
		st.args = []int{xi}
		st.precRule = zeroPrec(st.pre[xi].Prec, st.pre[xi].Prec)
		switch r.Intn(3) {
		case 0:
			st.op = "Set"
			f = func() { z.Set(x) }
		case 1:
			st.op = "Neg"
			f = func() { z.Neg(x) }
		default:
			st.op = "Abs"
			f = func() { z.Abs(x) }
		}
	case op < 39:
		xi, x := pick()
		st.op, st.args = "Copy", []int{xi}
		st.modeRule = fmt.Sprintf("copy:%d", st.pre[xi].Mode)
		want := st.pre[xi].Prec
		st.precRule = func(pre hx.Raw, got uint) string {
			if got != want {
				return fmt.Sprintf("Copy left precision %d, operand has %d", got, want)
			}
			return ""
		}
		f = func() { z.Copy(x) }
	case op < 47:
		p := vm.genPrec()
		want := p
		if r.Chance(3) { // "If prec > MaxPrec, it is set to MaxPrec": arguments beyond the 32-bit field
			p = []uint{decimal.MaxPrec + 1, 1 << 32, 1<<32 + 7, math.MaxUint64, decimal.MaxPrec, decimal.MaxPrec - 5, 1<<33 + uint(r.Range(1, 500))}[r.Intn(7)]
			want = p
			if want > decimal.MaxPrec {
				want = decimal.MaxPrec
			}
		}
		st.op = fmt.Sprintf("SetPrec(%d)", p)
		st.precRule = func(pre hx.Raw, got uint) string {
			if got != want {
				return fmt.Sprintf("SetPrec(%d) left precision %d, want %d", p, got, want)
			}
			return ""
		}
		f = func() { z.SetPrec(p) }
	case op < 52:
		m := r.Mode()
		st.op = fmt.Sprintf("SetMode(%d)", m)
		st.modeRule = fmt.Sprintf("copy:%d", m)
		f = func() { z.SetMode(decimal.RoundingMode(m)) }
	case op < 56:
		v := gen64(r)
		st.precRule = zeroPrec(34, 34)
		if r.Bool() {
			st.op = fmt.Sprintf("SetInt64(%d)", int64(v))
			f = func() { z.SetInt64(int64(v)) }
		} else {
			st.op = fmt.Sprintf("SetUint64(%d)", v)
			f = func() { z.SetUint64(v) }
		}
	case op < 59:
		b := hx.CoefOf(r.Digits(r.Range(1, 120)))
		switch r.Intn(6) {
		case 0:
			b.SetInt64(0)
		case 1:
			b.Set(oracle.Pow10(int64(r.Range(0, 80))))
		}
		if r.Bool() {
			b.Neg(b)
		}
		st.op = "SetInt(" + b.String() + ")"
		dg := uint(oracle.Digits(new(big.Int).Abs(b)))
		mp := uint(oracle.Val{Form: oracle.Finite, Coef: new(big.Int).Abs(b)}.MinPrec())
		if b.Sign() == 0 {
			mp, dg = 0, 0
		}
		st.precRule = zeroPrec(umax(34, mp), umax(34, dg))
		bc := new(big.Int).Set(b)
		st.argCheck = func() string {
			if bc.Cmp(b) != 0 {
				return "SetInt modified its *big.Int argument"
			}
			return ""
		}
		f = func() { z.SetInt(b) }
	case op < 62:
		a := hx.CoefOf(r.Digits(r.Range(1, 60)))
		b := hx.CoefOf(r.Digits(r.Range(1, 60)))
		q := new(big.Rat).SetFrac(a, b)
		switch r.Intn(6) {
		case 0:
			q.SetInt64(0)
		case 1:
			q.SetInt(a)
		}
		if r.Bool() {
			q.Neg(q)
		}
		st.op = "SetRat(" + q.String() + ")"
		hi := umax(34, uint(q.Num().BitLen()), uint(q.Denom().BitLen()))
		st.precRule = zeroPrec(34, hi)
		qc := new(big.Rat).Set(q)
		st.argCheck = func() string {
			if qc.Cmp(q) != 0 {
				return "SetRat modified its *big.Rat argument"
			}
			return ""
		}
		f = func() { z.SetRat(q) }
	case op < 65:
		fl := math.Float64frombits(r.U64())
		switch r.Intn(8) {
		case 0:
			fl = math.Inf(1 - 2*r.Intn(2))
		case 1:
			fl = math.Copysign(0, float64(1-2*r.Intn(2)))
		case 2:
			fl = float64(int64(r.U64()>>40)) / 1024
		case 3: // integers in [2^52, 2^53): the 53-bit mantissa needs no binary scaling at all
			fl = float64(uint64(1)<<52 + r.U64()%(1<<52))
			if r.Bool() {
				fl = -fl
			}
		}
		if math.IsNaN(fl) {
			fl = 1.5
		}
		st.op = fmt.Sprintf("SetFloat64(%v)", fl)
		st.precRule = zeroPrec(17, 17)
		f = func() { z.SetFloat64(fl) }
	case op < 67:
		bf := new(big.Float).SetPrec(uint(r.Range(1, 300)))
		bf.SetInt(hx.CoefOf(r.Digits(r.Range(1, 60))))
		bf.SetMantExp(bf, r.Range(-3000, 3000))
		if r.Chance(6) { // the ends of big.Float's own exponent range (the value is still well inside the decimal one)
			_, e0 := bf.MantExp(nil), bf.MantExp(nil)
			bf.SetMantExp(bf, []int{math.MinInt32, math.MinInt32 + 1, math.MinInt32 + 70, math.MaxInt32, math.MaxInt32 - 1, math.MaxInt32 - 70}[r.Intn(6)]-e0+r.Range(0, 3))
		}
		switch r.Intn(8) {
		case 0:
			bf.SetInf(r.Bool())
		case 1:
			bf.SetInt64(0)
		}
		if r.Bool() {
			bf.Neg(bf)
		}
		st.op = fmt.Sprintf("SetFloat(%s prec=%d)", bf.Text('p', 0), bf.Prec()) // ('p': decimal output of 2^(2^31) would take forever)
		want := uint(math.Ceil(float64(bf.Prec()) * (math.Ln2 / math.Ln10)))
		st.precRule = zeroPrec(want, want)
		bfc := new(big.Float).Copy(bf)
		st.argCheck = func() string {
			if bfc.Cmp(bf) != 0 || bfc.Prec() != bf.Prec() || bfc.Mode() != bf.Mode() || bfc.Signbit() != bf.Signbit() {
				return "SetFloat modified its *big.Float argument"
			}
			return ""
		}
		f = func() { z.SetFloat(bf) }
	case op < 72: // strings
		var s string
		base := 0
		if r.Chance(70) {
			lit := genLiteral10(r, hx.LimitsFor("quick"))
			s = lit.under
			if len(s) > 400 {
				s = lit.text[:200]
			}
		} else {
			s = genLiteralish(r)
			base = []int{0, 2, 8, 10, 16}[r.Intn(5)]
		}
		st.precRule = zeroPrec(34, 34)
		switch r.Intn(3) {
		case 0:
			st.op = fmt.Sprintf("Parse(%q,%d)", s, base)
			f = func() {
				_, b, err := z.Parse(s, base)
				st.aux = fmt.Sprintf("base=%d err=%v", b, err != nil)
				st.failed = err != nil
			}
		case 1:
			st.op = fmt.Sprintf("SetString(%q)", s)
			f = func() {
				_, ok := z.SetString(s)
				st.aux = fmt.Sprintf("ok=%v", ok)
				st.failed = !ok
			}
		default:
			st.op = fmt.Sprintf("UnmarshalText(%q)", s)
			f = func() {
				err := z.UnmarshalText([]byte(s))
				st.aux = fmt.Sprintf("err=%v", err != nil)
				st.failed = err != nil
			}
		}
	case op < 76:
		xi, x := pick()
		e := int(r.LeadExp())
		if r.Chance(40) {
			e = r.Range(-60, 60)
		}
		if r.Chance(4) {
			e = []int{math.MaxInt64, math.MinInt64, math.MaxInt32, math.MinInt32}[r.Intn(4)]
		}
		st.op, st.args = fmt.Sprintf("SetMantExp(x,%d)", e), []int{xi}
		st.modeRule = fmt.Sprintf("copy:%d", st.pre[xi].Mode)
		want := st.pre[xi].Prec
		st.precRule = func(pre hx.Raw, got uint) string {
			if got != want {
				return fmt.Sprintf("SetMantExp left precision %d, mant has %d", got, want)
			}
			return ""
		}
		f = func() { z.SetMantExp(x, e) }
	case op < 78: // x.MantExp(z): z is the out-parameter
		xi, x := pick()
		st.op, st.args = "MantExp", []int{xi}
		st.modeRule = fmt.Sprintf("copy:%d", st.pre[xi].Mode)
		want := st.pre[xi].Prec
		st.precRule = func(pre hx.Raw, got uint) string {
			if got != want {
				return fmt.Sprintf("MantExp's out-parameter has precision %d, x has %d", got, want)
			}
			return ""
		}
		f = func() { st.aux = fmt.Sprint(x.MantExp(z)) }
	case op < 81:
		n := r.Range(0, 8)
		w := make([]decimal.Word, n)
		for i := range w {
			w[i] = genWord(r)
		}
		if n > 0 && r.Chance(25) { // not normalized by whole words
			for i, k := n-1, r.Range(1, n); i >= n-k; i-- {
				w[i] = 0
			}
		}
		e := r.LeadExp()
		if r.Chance(5) {
			e = int64(r.U64())
		}
		st.op = fmt.Sprintf("SetBitsExp(%v,%d)", w, e)
		wantP0 := setBitsExpRefPrec(w)
		st.precRule = func(pre hx.Raw, got uint) string {
			if pre.Prec != 0 {
				return keepPrec(pre, got)
			}
			// The precision chosen for a precision-0 receiver is not documented, the normalization of the slice is:
			// the same mantissa passed without its most significant zero words must give the same precision.
			if got != wantP0 {
				return fmt.Sprintf("SetBitsExp on a precision-0 receiver left precision %d, the same mantissa without its leading zero words gives %d", got, wantP0)
			}
			return ""
		}
		f = func() { z.SetBitsExp(w, e) }
		if st.pre[st.z].Class == 1 && r.Chance(35) {
			// the documented idiom: BitsExp, edit the words in place, SetBitsExp with that very slice
			kind, k, fill := r.Intn(5), r.Range(1, 18), genWord(r)
			st.op = fmt.Sprintf("SetBitsExp(own slice edited in place, kind %d/%d/%d)", kind, k, fill)
			f = func() {
				m, e0 := z.BitsExp()
				n := len(m)
				switch kind {
				case 0: // clear leading digits of the top word
					m[n-1] %= decimal.Word(math.Pow10(k))
				case 1: // clear the top word(s)
					for i := n - 1; i >= 0 && i >= n-k; i-- {
						m[i] = 0
					}
				case 2: // all zero
					for i := range m {
						m[i] = 0
					}
				case 3: // overwrite a word
					m[k%n] = fill
				}
				z.SetBitsExp(m, int64(e0))
			}
		}
	case op < 83:
		sg := r.Bool()
		st.op = fmt.Sprintf("SetInf(%v)", sg)
		f = func() { z.SetInf(sg) }
	case op < 87: // gob round trip x -> z, directly or through encoding/gob
		xi, x := pick()
		st.op, st.args = "GobDecode(GobEncode(x))", []int{xi}
		xp, xm := st.pre[xi].Prec, st.pre[xi].Mode
		st.modeRule = "gob"
		st.precRule = func(pre hx.Raw, got uint) string {
			if pre.Prec != 0 {
				return keepPrec(pre, got)
			}
			if got != xp {
				return fmt.Sprintf("GobDecode into a precision-0 receiver left precision %d, transmitted %d", got, xp)
			}
			return ""
		}
		_ = xm
		mut := vm.mutatedGob && r.Chance(40)
		f = func() {
			b, err := x.GobEncode()
			if err != nil {
				panic("GobEncode error: " + err.Error())
			}
			if mut && len(b) > 0 {
				st.op = "GobDecode(mutated)"
				st.modeRule = "any"
				st.precRule = func(hx.Raw, uint) string { return "" }
				switch r.Intn(4) {
				case 0:
					b = b[:r.Intn(len(b))]
				case 1:
					b[r.Intn(len(b))] ^= byte(1 << uint(r.Intn(8)))
				case 2:
					b[r.Intn(len(b))] = byte(r.Intn(256))
				default:
					if len(b) > 1 {
						b[1] = byte(r.Intn(256))
					}
				}
				if len(b) == 0 {
					b = []byte{1}
				}
				err := z.GobDecode(b)
				st.aux = fmt.Sprintf("err=%v", err != nil)
				st.failed = err != nil
				return
			}
			if r.Bool() {
				if err := z.GobDecode(b); err != nil {
					panic("GobDecode rejects GobEncode's output: " + err.Error())
				}
			} else {
				var buf bytes.Buffer
				if err := gob.NewEncoder(&buf).Encode(x); err != nil {
					panic("gob encode: " + err.Error())
				}
				if err := gob.NewDecoder(&buf).Decode(z); err != nil {
					panic("gob decode: " + err.Error())
				}
			}
		}
	case op < 90: // text round trip
		xi, x := pick()
		st.op, st.args = "UnmarshalText(MarshalText(x))", []int{xi}
		st.precRule = zeroPrec(34, 34)
		f = func() {
			b, _ := x.MarshalText()
			if err := z.UnmarshalText(b); err != nil {
				panic("UnmarshalText rejects MarshalText's output: " + err.Error())
			}
		}
	case op < 92: // replace the variable by a fresh one
		st.modeRule, st.precRule = "any", func(hx.Raw, uint) string { return "" }
		if r.Bool() {
			v, e := int64(gen64(r)), int(r.LeadExp())
			st.op = fmt.Sprintf("NewDecimal(%d,%d)", v, e)
			f = func() { vm.vars[st.z] = decimal.NewDecimal(v, e) }
		} else {
			st.op = "new(Decimal)"
			f = func() { vm.vars[st.z] = new(decimal.Decimal) }
		}
	default: // getters: no receiver, their results go into the transcript
		xi, x := pick()
		yi, y := pick()
		st.z, st.writes, st.args = -1, nil, []int{xi, yi}
		st.op = "getters"
		moderate := leadOf(st.pre[xi]) < 3000 && leadOf(st.pre[xi]) > -3000 // also for zeros: a leftover exponent must not show, but if it does it must not exhaust memory here
		f = func() {
			var b strings.Builder
			fmt.Fprintf(&b, "cmp=%d sign=%d isint=%v minprec=%d ", x.Cmp(y), x.Sign(), x.IsInt(), x.MinPrec())
			b.WriteString(x.Text('e', r.Range(-1, 30)))
			b.WriteByte(' ')
			b.WriteString(x.Text('g', -1))
			b.WriteByte(' ')
			b.WriteString(x.Text('p', 0))
			i64, a1 := x.Int64()
			u64, a2 := x.Uint64()
			f64, a3 := x.Float64()
			f32, a4 := x.Float32()
			fmt.Fprintf(&b, " %d/%d %d/%d %v/%d %v/%d", i64, a1, u64, a2, f64, a3, f32, a4)
			if moderate {
				bi, a5 := x.Int(nil)
				fmt.Fprintf(&b, " %v/%d %s", bi, a5, x.Text('f', r.Range(-1, 12)))
				fmt.Fprintf(&b, " %s", fmt.Sprintf("%+12.4g|%-14.3e|%08.2f", x, x, x))
			}
			st.aux = b.String()
		}
	}
	if st.skipped || f == nil {
		st.skipped = true
		st.op = "skip"
		st.post = st.pre
		return st
	}
	if vm.note != nil {
		vm.note(fmt.Sprintf("program step %d: %s operands %v receiver %s", vm.nStep-1, st.describe(), operandBrief(st), briefRaw(st.pre[maxI(st.z, 0)])))
	}
	st.pi = hx.Try(f)
	if st.pi != nil && st.pi.IsNaN {
		vm.nNaN++
	}
	st.post = vm.snap()
	return st
}

func classVal3(r hx.Raw) oracle.Val {
	// class and sign only (enough for the NaN rule), with a unit coefficient for finite values
	switch r.Class {
	case 0:
		return oracle.Val{Form: oracle.Zero, Neg: r.Neg}
	case 2:
		return oracle.Val{Form: oracle.Inf, Neg: r.Neg}
	}
	return oracle.Val{Form: oracle.Finite, Neg: r.Neg, Coef: big.NewInt(1), Exp: 0}
}

// describe names the step with its variable indices.
func (st *progStep) describe() string {
	return fmt.Sprintf("v%d.%s args=%v", st.z, st.op, st.args)
}

// canonical is the line that goes into the transcript digest of C07.
func (st *progStep) canonical(vm *progVM) string {
	var b strings.Builder
	b.WriteString(st.describe())
	if st.pi != nil {
		fmt.Fprintf(&b, " panic=%s", st.pi.Class)
	}
	if st.aux != "" {
		b.WriteString(" aux=" + st.aux)
	}
	if st.z >= 0 {
		p := st.post[st.z]
		if st.failed || (st.pi != nil) {
			// the receiver's value is undefined after an error or an ErrNaN panic: only its class is recorded
			fmt.Fprintf(&b, " -> undefined")
		} else {
			b.WriteString(" -> " + p.String())
		}
	}
	return b.String()
}

func briefRaw(r hx.Raw) string {
	s := r.String()
	if len(s) > 160 {
		s = s[:100] + fmt.Sprintf("...(%d words) e%d prec=%d}", len(r.W), r.Exp, r.Prec)
	}
	return s
}

func operandBrief(st *progStep) []string {
	var out []string
	for _, a := range st.args {
		out = append(out, briefRaw(st.pre[a]))
	}
	return out
}

// setBitsExpRefPrec: the precision a fresh precision-0 receiver gets from SetBitsExp for w stripped of its most
// significant zero words (SetBitsExp is documented to normalize its argument itself).
func setBitsExpRefPrec(w []decimal.Word) uint {
	n := len(w)
	for n > 0 && w[n-1] == 0 {
		n--
	}
	return new(decimal.Decimal).SetBitsExp(cloneW(w[:n]), 0).Prec()
}

// sharedStorage reports two variables whose mantissa arrays (up to their capacity) overlap: every Decimal owns its
// digits (Set, Copy, MantExp and the arithmetic copy; only SetBitsExp adopts a slice, and the programs never hand the
// same slice to two variables). A shared array makes a later in-place operation on one variable change the other.
// probeSharing is called when two variables share an array: sharing as such is not observable (a copy-on-write
// discipline would be legitimate), so one variable is modified in place through the public API (rounded to fewer
// digits, negated, incremented) and the other one must not change. It returns a message if it did.
func (vm *progVM) probeSharing() string {
	i, j := vm.sharedPair()
	if i < 0 {
		return ""
	}
	for _, p := range [][2]int{{i, j}, {j, i}} {
		a, b := vm.vars[p[0]], vm.vars[p[1]]
		before := hx.RawOf(b)
		if a.IsInf() || a.IsZero() {
			a.SetUint64(98765432109876543)
		}
		if mp := a.MinPrec(); mp > 1 {
			a.SetPrec(mp - 1)
		}
		a.Neg(a)
		a.Add(a, a)
		if after := hx.RawOf(b); !before.Identical(after) {
			return fmt.Sprintf("variables v%d and v%d share mantissa storage: rounding, negating and doubling v%d in place changed v%d from %s to %s", i, j, p[0], p[1], briefRaw(before), briefRaw(after))
		}
	}
	return ""
}

func (vm *progVM) sharedStorage() string {
	if i, j := vm.sharedPair(); i >= 0 {
		return fmt.Sprintf("variables v%d and v%d share mantissa storage", i, j)
	}
	return ""
}

func (vm *progVM) sharedPair() (int, int) {
	type span struct{ lo, hi uintptr }
	var sp [nVars]span
	for i, v := range vm.vars {
		m := decimal.VerifGetRaw(v).Mant
		if cap(m) == 0 {
			continue
		}
		m = m[:cap(m)]
		lo := uintptr(unsafe.Pointer(&m[0]))
		sp[i] = span{lo, lo + uintptr(len(m))*8}
	}
	for i := range sp {
		for j := i + 1; j < len(sp); j++ {
			if sp[i].hi != 0 && sp[j].hi != 0 && sp[i].lo < sp[j].hi && sp[j].lo < sp[i].hi {
				return i, j
			}
		}
	}
	return -1, -1
}
