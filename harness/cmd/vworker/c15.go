package main

import (
	"fmt"
	"math"
	"math/big"

	"github.com/db47h/decimal"

	"verifharness/hx"
	"verifharness/oracle"
)

// C15 — binary floating point: nearest on output (Float64/Float32), faithful on
// input (SetFloat64 within one unit, SetFloat/Float within a few dozen), exact
// whenever the precision can hold the full expansion.

func init() {
	engines["C15"] = &engine{N: tierN(150000, 5000000), Setup: selfTest, Case: c15Case}
}

// naiveUlps is our reading of the statement's "a few dozen units" for SetFloat and Float.
const naiveUlps = 64

func c15Case(c *hx.Ctx, r *hx.RNG, idx int64) {
	switch k := r.Intn(100); {
	case k < 30:
		c15SetFloat64(c, r)
	case k < 45:
		c15SetFloat(c, r)
	case k < 85:
		c15ToFloat(c, r)
	default:
		c15Float(c, r)
	}
}

func genF64(r *hx.RNG) (float64, string) {
	switch r.Intn(12) {
	case 0:
		return math.Float64frombits(r.U64() >> 12), "subnormal"
	case 1:
		f := math.Ldexp(1, r.Range(-1074, 1023))
		switch r.Intn(3) {
		case 0:
			f = math.Nextafter(f, math.Inf(1))
		case 1:
			f = math.Nextafter(f, 0)
		}
		return f, "power-of-two"
	case 2:
		ex := []float64{math.MaxFloat64, math.SmallestNonzeroFloat64, math.Nextafter(math.MaxFloat64, 0), 2.2250738585072014e-308, math.Nextafter(2.2250738585072014e-308, 0), 1, 0.1, 0.5, 1e22, 1e23, 9007199254740993,
			// integer type boundaries as floats, and their neighbours
			1 << 31, 1 << 32, 1 << 52, 1 << 53, 1 << 62, 1 << 63, 18446744073709551616, 36893488147419103232, 1e19, 1e18, 1e20}
		f := ex[r.Intn(len(ex))]
		switch r.Intn(4) {
		case 0:
			f = math.Nextafter(f, 0)
		case 1:
			f = math.Nextafter(f, math.Inf(1))
		}
		if r.Bool() {
			f = -f
		}
		return f, "extreme"
	case 3:
		return float64(int64(r.U64()>>uint(r.Range(11, 63)))) / float64(int64(1)<<uint(r.Range(0, 40))), "short-fraction"
	case 4:
		return math.Copysign(0, float64(1-2*r.Intn(2))), "zero"
	case 5:
		return math.Inf(1 - 2*r.Intn(2)), "inf"
	case 6: // decimal-looking values
		f, _ := new(big.Float).SetString(fmt.Sprintf("%de%d", r.Range(1, 999999), r.Range(-300, 300)))
		g, _ := f.Float64()
		return g, "decimal-literal"
	}
	for {
		f := math.Float64frombits(r.U64())
		if !math.IsNaN(f) {
			return f, "uniform-bits"
		}
	}
}

// distUlps returns |a - b| in units of 10^(lead - p), lead = larger leading exponent of the two, as a big.Rat-free comparison:
// it reports whether |a - b| <= n x 10^(lead-p).
func withinUlps(a, b oracle.Val, p int64, n int64) bool {
	if a.Form != oracle.Finite || b.Form != oracle.Finite {
		return a.Form == b.Form && a.Neg == b.Neg
	}
	lead := a.LeadExp()
	if l := b.LeadExp(); l > lead {
		lead = l
	}
	e := a.Exp
	if b.Exp < e {
		e = b.Exp
	}
	ue := lead - p // exponent of one unit in the last place
	if ue < e {
		e = ue
	}
	x := new(big.Int).Mul(a.Coef, oracle.Pow10(a.Exp-e))
	y := new(big.Int).Mul(b.Coef, oracle.Pow10(b.Exp-e))
	if a.Neg {
		x.Neg(x)
	}
	if b.Neg {
		y.Neg(y)
	}
	d := x.Sub(x, y)
	d.Abs(d)
	lim := new(big.Int).Mul(big.NewInt(n), oracle.Pow10(ue-e))
	return d.Cmp(lim) <= 0
}

func c15SetFloat64(c *hx.Ctx, r *hx.RNG) {
	f, cls := genF64(r)
	nan := r.Chance(2)
	if nan {
		f, cls = math.NaN(), "nan"
	}
	mode := r.Mode()
	p := int64(r.Range(1, 40))
	switch r.Intn(6) {
	case 0:
		p = 0
	case 1:
		p = int64(r.Range(1, 5))
	case 2:
		p = int64(r.Range(700, 800)) // holds any float64 expansion exactly (at most 767 digits)
	}
	if math.Abs(f) >= 1<<54 && !math.IsInf(f, 0) && r.Chance(25) {
		p = maxPrec // an integer scaled by a positive power of two: only multiplications, nothing is allocated by the precision
	}
	what := fmt.Sprintf("SetFloat64(%v = %#x) prec=%d mode=%s", f, math.Float64bits(f), p, oracle.ModeNames[mode])
	c.Note(what)
	if c.Verbose {
		fmt.Println("case:", what)
	}
	z := newRecv(p, mode)
	pi := hx.Try(func() { z.SetFloat64(f) })
	c.Eval(hx.HashStr(what), cls != "zero" && cls != "inf", "SetFloat64/"+cls)
	if c.WantSample("SetFloat64/" + cls) {
		c.Sample("SetFloat64/"+cls, what)
	}
	if nan {
		if pi == nil || !pi.IsNaN {
			c.Violate("missing-ErrNaN", what+": NaN must panic with ErrNaN", "")
		}
		return
	}
	if pi != nil {
		c.Violate("panic", fmt.Sprintf("%s: %s panic %q at %s", what, pi.Class, pi.Text, pi.Stack), "")
		return
	}
	got := hx.Snapshot(z)
	pe := p
	if p == 0 {
		pe = 17
		if got.Prec != 17 {
			c.Violate("wrong-precision", fmt.Sprintf("%s: precision 0 became %d, documented 17", what, got.Prec), "")
		}
	} else if int64(got.Prec) != p {
		c.Violate("precision-changed", fmt.Sprintf("%s: receiver precision became %d", what, got.Prec), "")
		return
	}
	neg := math.Signbit(f)
	switch {
	case f == 0:
		if got.V.Form != oracle.Zero || got.V.Neg != neg {
			c.Violate("wrong-value", fmt.Sprintf("%s: stored %s", what, got), "")
		}
		return
	case math.IsInf(f, 0):
		if got.V.Form != oracle.Inf || got.V.Neg != neg {
			c.Violate("wrong-value", fmt.Sprintf("%s: stored %s", what, got), "")
		}
		return
	}
	ex := exactOfFloat(f)
	want := oracle.RoundOnce(ex, pe, mode)
	if got.V.Neg != neg {
		c.Violate("wrong-sign", fmt.Sprintf("%s: stored %s", what, got), "")
		return
	}
	full := (oracle.Val{Form: oracle.Finite, Coef: ex.Coef}).MinPrec()
	if full <= pe {
		c.Count("setfloat64_exactly_representable", 1)
		if !oracle.Equal(got.V, oracle.Val{Form: oracle.Finite, Neg: neg, Coef: ex.Coef, Exp: ex.Exp}) {
			c.Violate("not-exact", fmt.Sprintf("%s: the expansion has %d digits and fits, but stored %s instead of %s", what, full, got.V.Full(), want.V.Full()), "")
		}
		return
	}
	if !oracle.Equal(got.V, want.V) {
		c.Count("setfloat64_off_by_one_unit_allowed", 1)
	}
	if !withinUlps(got.V, want.V, pe, 1) {
		c.Violate("more-than-one-unit-off", fmt.Sprintf("%s: stored %s, correctly rounded %s", what, got.V.Full(), want.V.Full()), "")
	}
	if d := oracle.Digits(got.V.Strip().Coef); d > pe {
		c.Violate("too-many-digits", fmt.Sprintf("%s: stored %d digits", what, d), "")
	}
}

// exactOfBigFloat returns the exact decimal value of a finite non-zero big.Float.
func exactOfBigFloat(x *big.Float) oracle.ExDec {
	m := new(big.Float).Copy(x)
	e := m.MantExp(m) // x = m x 2^e, 0.5 <= |m| < 1
	mp := int(m.MinPrec())
	m.SetMantExp(m, mp)
	i, _ := m.Int(nil) // exact
	e -= mp
	neg := i.Sign() < 0
	i.Abs(i)
	if e >= 0 {
		i.Lsh(i, uint(e))
		return oracle.ExDec{Neg: neg, Coef: i, Exp: 0}
	}
	i.Mul(i, new(big.Int).Exp(big.NewInt(5), big.NewInt(int64(-e)), nil))
	return oracle.ExDec{Neg: neg, Coef: i, Exp: int64(e)}
}

func genBigFloat(r *hx.RNG, tier string) (*big.Float, string) {
	prec := uint(r.Range(1, 200))
	if r.Chance(15) {
		prec = uint(r.Range(200, 2000))
	}
	x := new(big.Float).SetPrec(prec)
	switch r.Intn(12) {
	case 0, 1:
		special := r.Intn(2)
		if r.Chance(40) {
			// zeros and infinities are cheap at any precision: the whole uint32 range, and sums of small multiples of the
			// continued-fraction denominators of log10(2) (where Prec() x log10(2) is closest to an integer, and a
			// rounded product falls on the wrong side of it)
			p := r.U64() % (1 << 32)
			if r.Chance(70) {
				cf := []uint64{93, 196, 485, 2136, 13301, 28738, 42039, 70777, 254370, 325147, 6107016, 6432163, 198096465, 1918400330}
				p = 0
				for i, n := 0, r.Range(1, 3); i < n; i++ {
					p += cf[r.Intn(len(cf))] * uint64(r.Range(1, 25))
				}
				p %= 1 << 32
			}
			if p == 0 {
				p = 1
			}
			x.SetPrec(uint(p))
		}
		if special == 0 {
			return x.SetInf(r.Bool()), "inf"
		}
		if r.Chance(35) {
			x = new(big.Float) // a zero value: precision 0 (its negation keeps precision 0)
		}
		if r.Bool() {
			x.Neg(x)
		}
		return x, "zero"
	}
	if r.Chance(8) {
		// a short decimal integer c x 10^n held exactly: its binary mantissa carries the factor 5^n, its decimal expansion
		// is short (any precision >= the digits of c holds it) although the power of two that scales it is long
		n := r.Range(20, 700)
		v := new(big.Int).Mul(hx.CoefOf(r.Digits(r.Range(1, 12))), oracle.Pow10(int64(n)))
		x.SetPrec(uint(v.BitLen() + r.Intn(3)*r.Range(0, 200))).SetInt(v)
		if r.Bool() {
			x.Neg(x)
		}
		return x, "finite"
	}
	if r.Chance(6) {
		// values that look like float64s: 53 (52, 54, 24) significant bits at the ends of the double's exponent range,
		// where a double has fewer bits than that (subnormals) or does not exist
		bits := []uint{53, 53, 52, 54, 24, 64}[r.Intn(6)]
		m := new(big.Int).SetUint64(r.U64()>>(64-bits) | 1<<(bits-1) | 1)
		x.SetPrec(prec + 64).SetInt(m)
		e := []int{-1022, -1021, -1023, -1024, -1074, -1075, -1073, 1024, 1023, 1025, -126, -149, 128}[r.Intn(13)]
		x.SetMantExp(x, e-int(bits)) // MantExp(x) == e
		if r.Bool() {
			x.Neg(x)
		}
		return x, "finite"
	}
	m := new(big.Int).SetUint64(r.U64())
	wide := r.Chance(4)
	if wide {
		// a precision of thousands of bits (a short mantissa, so that the conversion stays cheap): what a precision-0
		// receiver is given, the documented ceil(Prec() x log10(2)), is compared with an exact count
		prec = uint(r.Range(2000, 140000))
		if r.Chance(30) {
			prec = uint([]int{13301, 26602, 37767, 39903, 42039, 51068, 66505, 65536, 100000, 131072}[r.Intn(10)] + r.Range(-1, 1))
		}
		x.SetPrec(prec)
	}
	if wide || r.Chance(25) {
		// far fewer significant bits than the precision provides (3 held at 128 bits): Prec() and MinPrec() differ widely
		m.SetUint64(r.U64()>>uint(r.Range(0, 63)) | 1)
	} else {
		for m.BitLen() < int(prec) {
			m.Lsh(m, 64)
			m.Or(m, new(big.Int).SetUint64(r.U64()))
		}
	}
	x.SetInt(m)
	maxE := 3000
	if tier == "thorough" && r.Chance(5) {
		maxE = 100000
	}
	e := r.Range(-maxE, maxE)
	if wide || r.Chance(40) {
		e = r.Range(-80, 80)
	}
	x.SetMantExp(x, e-m.BitLen())
	if r.Bool() {
		x.Neg(x)
	}
	return x, "finite"
}

// ceilLog10Pow2 returns ceil(p x log10(2)) exactly: the number of digits of 2^p, counted up to 140 000 bits, beyond that
// floor(p x L / 10^60) + 1 with L = log10(2) x 10^60 truncated (the error, p x 10^-60, is far below the distance of
// p x log10(2) from the nearest integer for any p < 2^32, which exceeds 10^-11).
func ceilLog10Pow2(p uint64) int64 {
	if p <= 140000 {
		return oracle.Digits(new(big.Int).Lsh(big.NewInt(1), uint(p)))
	}
	l, _ := new(big.Int).SetString("301029995663981195213738894724493026768189881462108541310427", 10)
	v := l.Mul(l, new(big.Int).SetUint64(p))
	return v.Quo(v, oracle.Pow10(60)).Int64() + 1
}

func c15SetFloat(c *hx.Ctx, r *hx.RNG) {
	x, cls := genBigFloat(r, c.Tier)
	mode := r.Mode()
	p := int64(r.Range(1, 60))
	var full int64
	var ex oracle.ExDec
	if cls == "finite" {
		ex = exactOfBigFloat(x)
		full = (oracle.Val{Form: oracle.Finite, Coef: ex.Coef}).MinPrec()
	}
	switch r.Intn(5) {
	case 0:
		p = 0
	case 1:
		if cls == "finite" && full < 6000 {
			p = full + int64(r.Range(0, 5)) // holds the full expansion
		}
	}
	if cls == "finite" && ex.Exp == 0 && r.Chance(20) {
		p = maxPrec // an integer: the mantissa is scaled by a non-negative power of two, nothing is allocated by the precision
	}
	what := fmt.Sprintf("SetFloat(%s, binary prec %d) prec=%d mode=%s", x.Text('p', 0), x.Prec(), p, oracle.ModeNames[mode])
	c.Note(what)
	if c.Verbose {
		fmt.Println("case:", what)
	}
	z := newRecv(p, mode)
	xc := new(big.Float).Copy(x)
	pi := hx.Try(func() { z.SetFloat(x) })
	c.Eval(hx.HashStr(what), cls == "finite", "SetFloat/"+cls)
	if c.WantSample("SetFloat/" + cls) {
		c.Sample("SetFloat/"+cls, what)
	}
	if pi != nil {
		c.Violate("panic", fmt.Sprintf("%s: %s panic %q at %s", what, pi.Class, pi.Text, pi.Stack), "")
		return
	}
	if xc.Cmp(x) != 0 || xc.Prec() != x.Prec() {
		c.Violate("argument-modified", what+": the *big.Float argument changed", "")
	}
	got := hx.Snapshot(z)
	neg := x.Signbit()
	pe := p
	if p == 0 {
		pe = ceilLog10Pow2(uint64(x.Prec()))
		if int64(got.Prec) != pe && !(got.Prec == 0 && cls != "finite") {
			c.Violate("wrong-precision", fmt.Sprintf("%s: precision 0 became %d, documented %d", what, got.Prec, pe), "")
		}
		if pe < 1 {
			pe = 1
		}
	} else if int64(got.Prec) != p {
		c.Violate("precision-changed", fmt.Sprintf("%s: receiver precision became %d", what, got.Prec), "")
		return
	}
	switch cls {
	case "zero":
		if got.V.Form != oracle.Zero || got.V.Neg != neg {
			c.Violate("wrong-value", fmt.Sprintf("%s: stored %s", what, got), "")
		}
		return
	case "inf":
		if got.V.Form != oracle.Inf || got.V.Neg != neg {
			c.Violate("wrong-value", fmt.Sprintf("%s: stored %s", what, got), "")
		}
		return
	}
	if got.V.Neg != neg {
		c.Violate("wrong-sign", fmt.Sprintf("%s: stored %s", what, got), "")
		return
	}
	want := oracle.RoundOnce(ex, pe, mode)
	if full <= pe {
		c.Count("setfloat_exactly_representable", 1)
		if !oracle.Equal(got.V, oracle.Val{Form: oracle.Finite, Neg: neg, Coef: ex.Coef, Exp: ex.Exp}) {
			c.Violate("not-exact", fmt.Sprintf("%s: the expansion has %d digits and fits, but stored %s", what, full, got.V.Full()), "")
		}
		return
	}
	if !withinUlps(got.V, want.V, pe, naiveUlps) {
		c.Violate("too-far-off", fmt.Sprintf("%s: stored %s, correctly rounded %s (more than %d units apart)", what, got.V.Full(), want.V.Full(), naiveUlps), "")
	}
}

// ------------------------------------------------------- Float64 / Float32

// genNearGrid builds a Decimal at or next to the float64/float32 grid: a float, a midpoint of two adjacent floats, or one of those +- a relative 10^-k.
func genNearGrid(r *hx.RNG, bits32 bool) (oracle.Val, string) {
	var f, g float64
	if bits32 {
		a := math.Float32frombits(uint32(r.U64()))
		for a != a || math.IsInf(float64(a), 0) || a == 0 {
			a = math.Float32frombits(uint32(r.U64()))
		}
		f = float64(a)
		g = float64(math.Nextafter32(a, float32(math.Inf(1))))
	} else {
		f = math.Float64frombits(r.U64())
		for f != f || math.IsInf(f, 0) || f == 0 {
			f = math.Float64frombits(r.U64())
		}
		if r.Chance(20) {
			f = math.Ldexp(1+float64(r.Intn(3)), r.Range(-1070, 1020))
		}
		g = math.Nextafter(f, math.Inf(1))
	}
	if math.IsInf(g, 0) {
		g = f
	}
	a, b := exactOfFloat(f), exactOfFloat(g)
	va := oracle.Val{Form: oracle.Finite, Neg: a.Neg, Coef: a.Coef, Exp: a.Exp}
	cls := "on-grid"
	threshold := r.Chance(8)
	if threshold {
		// the rounding thresholds at the ends of the format: halfway between the largest finite value and the next power
		// of two (2^1024 - 2^970, 2^128 - 2^103), and half the smallest subnormal (2^-1075, 2^-150)
		two := big.NewInt(2)
		top, sub := int64(1024), int64(1075)
		if bits32 {
			top, sub = 128, 150
		}
		mb := int64(54)
		if bits32 {
			mb = 25
		}
		if r.Bool() {
			c := new(big.Int).Exp(two, big.NewInt(top), nil)
			c.Sub(c, new(big.Int).Exp(two, big.NewInt(top-mb), nil))
			va = oracle.Val{Form: oracle.Finite, Neg: r.Bool(), Coef: c, Exp: 0}
		} else {
			va = oracle.Val{Form: oracle.Finite, Neg: r.Bool(), Coef: new(big.Int).Exp(big.NewInt(5), big.NewInt(sub), nil), Exp: -sub}
		}
		cls = "end-threshold"
	}
	if r.Chance(65) && f != g && !threshold {
		// midpoint (a + b) / 2, exact
		s, ok := addDecVals(va, oracle.Val{Form: oracle.Finite, Neg: b.Neg, Coef: b.Coef, Exp: b.Exp})
		if ok {
			va = oracle.Val{Form: oracle.Finite, Neg: s.Neg, Coef: new(big.Int).Mul(s.Coef, big.NewInt(5)), Exp: s.Exp - 1}
			cls = "midpoint"
		}
	}
	if r.Chance(60) {
		// nudge by a relative 10^-k, k from 3 (well outside the double-rounding band) to 60 (deep inside)
		k := int64(r.Range(3, 60))
		if threshold && r.Chance(70) {
			k = int64(r.Range(6, 24)) // around the width of one unit of the format (2^-24, 2^-53) and of the band inside it
		}
		far := !threshold && r.Chance(12)
		if far {
			// a tail hundreds or thousands of digits down: the mantissa is far longer than any working precision a
			// conversion may pick, and what decides the accuracy lies beyond it
			k = int64(r.Range(60, 6000))
			if r.Bool() {
				k = int64(r.Range(780, 1200))
			}
		}
		d := oracle.Digits(va.Coef)
		ext := k + 2
		co := new(big.Int).Mul(va.Coef, oracle.Pow10(ext))
		delta := new(big.Int).Mul(big.NewInt(int64(r.Range(1, 9))), oracle.Pow10(maxI64(d+ext-k-1, 0)))
		if r.Bool() {
			co.Add(co, delta)
			cls += "+"
		} else {
			co.Sub(co, delta)
			cls += "-"
		}
		if co.Sign() > 0 {
			va = oracle.Val{Form: oracle.Finite, Neg: va.Neg, Coef: co, Exp: va.Exp - ext}
			if k >= 20 {
				cls += "tiny"
			}
			if far {
				cls += "-far-tail"
				if r.Bool() { // ... held in a mantissa padded with zero digits below the tail, as a long receiver leaves it
					z := int64(r.Range(1, 400))
					va.Coef = new(big.Int).Mul(va.Coef, oracle.Pow10(z))
					va.Exp -= z
				}
			}
		}
	}
	return va, cls
}

func maxI64(a, b int64) int64 {
	if a > b {
		return a
	}
	return b
}

func addDecVals(a, b oracle.Val) (oracle.ExDec, bool) {
	o := oracle.Add(a, b, 0)
	if o.Special || o.NaN {
		return oracle.ExDec{}, false
	}
	return o.Ex.(oracle.ExDec), true
}

func c15ToFloat(c *hx.Ctx, r *hx.RNG) {
	bits32 := r.Chance(35)
	var v oracle.Val
	var cls string
	switch k := r.Intn(100); {
	case k < 5:
		// the leading digits of a double whose expansion goes on with 19 or more zeros (nines) and then further digits
		// (table found by lattice reduction, tools/hard_expansions.py): x differs from that double by less than any
		// fixed number of guard digits shows, and the accuracy must still say on which side it lies
		bits32 = false
		h := hardFloats[r.Intn(len(hardFloats))]
		ex := exactOfFloat(math.Ldexp(float64(h.m), h.e))
		ds := ex.Coef.String()
		cut := h.digits + r.Range(0, h.run+3)
		if r.Chance(20) {
			cut = r.Range(17, len(ds))
		}
		if cut > len(ds) {
			cut = len(ds)
		}
		pc, _ := new(big.Int).SetString(ds[:cut], 10)
		if h.nines && cut < h.digits+h.run || r.Chance(20) {
			pc.Add(pc, big.NewInt(1)) // (the prefix before a run of nines, rounded up: just above the double)
		}
		v, cls = oracle.Val{Form: oracle.Finite, Neg: r.Bool(), Coef: pc, Exp: ex.Exp + int64(len(ds)-cut)}, "hard-expansion-prefix"
	case k < 55:
		v, cls = genNearGrid(r, bits32)
	case k < 60:
		v, cls = oracle.Val{Form: oracle.Zero, Neg: r.Bool()}, "zero"
	case k < 65:
		v, cls = oracle.Val{Form: oracle.Inf, Neg: r.Bool()}, "inf"
	case k < 80: // around the ends of the format's range, and far beyond
		les := []int64{309, 310, 308, -323, -324, -325, 39, 38, -45, -46, 400, -400, oracle.MaxExp, oracle.MinExp, 100000, -100000}
		v, cls = r.Finite(r.Range(1, 30), les[r.Intn(len(les))]), "range-edge"
	default:
		v, cls = r.Finite(r.Range(1, 60), int64(r.Range(-50, 50))), "random"
	}
	x := hx.MkR(r, v, xPrec(r, v, uint(r.Intn(3))), r.Mode())
	name := "Float64"
	if bits32 {
		name = "Float32"
	}
	what := fmt.Sprintf("%s of %s", name, v.Full())
	c.Note(what)
	if c.Verbose {
		fmt.Println("case:", what)
	}
	pre := hx.Snapshot(x)
	var got float64
	var acc decimal.Accuracy
	pi := hx.Try(func() {
		if bits32 {
			g, a := x.Float32()
			got, acc = float64(g), a
		} else {
			got, acc = x.Float64()
		}
	})
	c.Eval(hx.HashStr(what), v.Form == oracle.Finite, name+"/"+cls)
	if c.WantSample(name + "/" + cls) {
		c.Sample(name+"/"+cls, what)
	}
	if pi != nil {
		c.Violate("panic", fmt.Sprintf("%s: %s panic %q at %s", what, pi.Class, pi.Text, pi.Stack), "")
		return
	}
	if !hx.SameState(pre, hx.Snapshot(x)) {
		c.Violate("operand-modified", what+": x changed", "")
	}
	var want float64
	wacc := 0
	inBandValue, inBandAcc := false, false
	switch v.Form {
	case oracle.Zero:
		want = math.Copysign(0, map[bool]float64{true: -1, false: 1}[v.Neg])
	case oracle.Inf:
		want = math.Inf(map[bool]int{true: -1, false: 1}[v.Neg])
		// the statement fixes no accuracy for an infinite x: not judged
		wacc = int(acc)
	default:
		le := v.LeadExp()
		switch {
		case le > 400: // far above MaxFloat64 ~ 1.8e308 (and MaxFloat32)
			want, wacc = math.Inf(1), 1
			if v.Neg {
				want, wacc = math.Inf(-1), -1
			}
		case le < -400:
			want, wacc = 0, -1
			if v.Neg {
				want, wacc = math.Copysign(0, -1), 1
			}
		default:
			q := valRat(v)
			if bits32 {
				f32, _ := q.Float32()
				want = float64(f32)
			} else {
				want, _ = q.Float64()
			}
			// accuracy = sign(returned - x) for the correctly rounded value
			if math.IsInf(want, 0) {
				wacc = 1
				if want < 0 {
					wacc = -1
				}
			} else {
				wacc = new(big.Rat).SetFloat64(want).Cmp(q)
			}
			inBandValue, inBandAcc = d12Band(q, want, bits32)
		}
	}
	sameF := func(a, b float64) bool { return a == b && math.Signbit(a) == math.Signbit(b) }
	kfV := ""
	if inBandValue {
		kfV = "float_double_rounding_band"
	}
	_ = inBandAcc
	if inBandValue {
		c.Count("tofloat_inside_double_rounding_band", 1)
	} else if v.Form == oracle.Finite {
		c.Count("tofloat_outside_double_rounding_band", 1)
	}
	// The accuracy is the sign of (returned - x): it is judged against the value that was returned, whether or not that
	// is the nearest one, so no known finding applies to it.
	if v.Form == oracle.Finite && !math.IsNaN(got) {
		racc := 0
		switch {
		case math.IsInf(got, 1):
			racc = 1
		case math.IsInf(got, -1):
			racc = -1
		case got == 0: // (also for x far below the format's range, whose exact rational is not materialised)
			racc = map[bool]int{false: -1, true: 1}[v.Neg]
		case v.LeadExp() > 400 || v.LeadExp() < -400:
			racc = map[bool]int{false: -1, true: 1}[(got > 0) == (v.LeadExp() < 0)] // finite and non-zero here: a wrong value, reported below
		default:
			racc = new(big.Rat).SetFloat64(got).Cmp(valRat(v))
		}
		c.Count("tofloat_accuracy_judged_against_returned_value", 1)
		if int(acc) != racc {
			c.Violate("wrong-accuracy", fmt.Sprintf("%s = %v with accuracy %s, sign(returned - x) is %s", what, got, accName(int(acc)), accName(racc)), "")
			return
		}
	}
	if !sameF(got, want) {
		c.Violate("not-nearest", fmt.Sprintf("%s = %v (%#x), nearest is %v (%#x)", what, got, math.Float64bits(got), want, math.Float64bits(want)), kfV)
		return
	}
	if int(acc) != wacc {
		c.Violate("wrong-accuracy", fmt.Sprintf("%s = %v with accuracy %s, sign(returned - x) is %s", what, got, accName(int(acc)), accName(wacc)), "")
	}
}

// d12Band is the predicate of known finding D12: Float64/Float32 round twice
// (first to a 64/32-bit big.Float computed with a few units of error, then to the
// format). The first can move x across a midpoint (wrong value) or onto / off a
// representable value (wrong accuracy) only when x lies within 2^3 units of the
// intermediate precision of such a point: 2^-8 ulp for float64, 2^-5 ulp for float32.
func d12Band(q *big.Rat, nearest float64, bits32 bool) (value, acc bool) {
	if nearest == 0 || math.IsInf(nearest, 0) {
		// at the ends of the range the same mechanism applies to the overflow/underflow thresholds: treat as in band
		return true, true
	}
	_, e := math.Frexp(nearest) // nearest = m x 2^e, 0.5 <= |m| < 1
	mb := 53
	minE := -1074
	bandLog := 8
	if bits32 {
		mb, minE, bandLog = 24, -149, 5
	}
	ue := e - mb // exponent of the spacing inside this binade
	if ue < minE {
		ue = minE
	}
	ue++ // be generous at binade boundaries: use the larger neighbouring spacing
	u := new(big.Rat).SetFloat64(math.Ldexp(1, ue))
	if ue < -1000 {
		u = new(big.Rat).SetFrac(big.NewInt(1), new(big.Int).Lsh(big.NewInt(1), uint(-ue)))
	}
	t := new(big.Rat).Quo(new(big.Rat).Abs(q), u) // position in units of the spacing
	// fractional part of 2t (midpoints and grid points of the finer real spacing are the half-integers and integers of 2t ... of t scaled)
	t.Mul(t, big.NewRat(4, 1)) // ue was bumped by one: the real spacing is u/2, midpoints are at multiples of u/4
	fl := new(big.Int).Quo(t.Num(), t.Denom())
	fr := new(big.Rat).Sub(t, new(big.Rat).SetInt(fl)) // in [0,1): distance to the next lower multiple of u/4
	band := new(big.Rat).SetFrac(big.NewInt(4), new(big.Int).Lsh(big.NewInt(1), uint(bandLog)))
	near := fr.Cmp(band) <= 0 || new(big.Rat).Sub(big.NewRat(1, 1), fr).Cmp(band) <= 0
	// multiples of u/4 comprise grid points (even multiples of u/4 ... ) and midpoints: either way one of the two verdicts may flip
	return near, near
}

func c15Float(c *hx.Ctx, r *hx.RNG) {
	var v oracle.Val
	cls := "finite"
	switch r.Intn(12) {
	case 0:
		v, cls = oracle.Val{Form: oracle.Zero, Neg: r.Bool()}, "zero"
	case 1:
		v, cls = oracle.Val{Form: oracle.Inf, Neg: r.Bool()}, "inf"
	default:
		maxE := 3000
		if c.Tier == "thorough" && r.Chance(5) {
			maxE = 20000
		}
		v = r.Finite(r.Range(1, 120), int64(r.Range(-maxE, maxE)))
		if r.Chance(40) {
			v = r.Finite(r.Range(1, 120), int64(r.Range(-40, 40)))
		}
		if r.Chance(6) { // far beyond big.Float's own exponent range (2^31 binary, about 10^646456993), down to the ends of the decimal one
			le := []int64{oracle.MaxExp, oracle.MinExp, oracle.MaxExp - int64(r.Range(0, 200)), oracle.MinExp + int64(r.Range(0, 200)), 1500000000, -1500000000, 700000000, -700000000}[r.Intn(8)]
			v, cls = r.Finite(r.Range(1, 60), le), "beyond-binary-range"
		}
	}
	long := cls == "finite" && r.Intn(80) == 0
	if long { // thousands of digits into (or defining) a target of thousands of bits
		v = r.Finite(r.Range(2000, 8000), int64(r.Range(-3000, 3000)))
	}
	x := hx.MkR(r, v, digitsOf(v)+uint(r.Intn(3)), r.Mode()) // (not a huge precision: a destination without one takes ceil(prec*log2(10)) bits)
	bp := uint(r.Range(1, 300))
	if long {
		bp = uint(r.Range(5000, 26000))
	}
	var z *big.Float
	shape := r.Intn(3)
	switch shape {
	case 1:
		z = new(big.Float).SetPrec(bp).SetMode(big.RoundingMode(r.Intn(6)))
		switch r.Intn(6) { // what the destination held before
		case 0:
			z.SetInf(r.Bool())
		case 1:
			z.SetInt64(0)
			if r.Bool() {
				z.Neg(z)
			}
		case 2:
			z.SetFloat64(-0.75)
			z.SetMantExp(z, r.Range(-5000, 5000)) // (SetMantExp copies its argument's precision: only z itself keeps bp)
		default:
			z.SetInt64(12345)
		}
	case 2:
		z = new(big.Float) // precision 0: documented max(ceil(prec*log2(10)), 64)
	}
	what := fmt.Sprintf("Float of %s into shape %d binary prec %d", v.Full(), shape, bp)
	c.Note(what)
	pre := hx.Snapshot(x)
	var res *big.Float
	pi := hx.Try(func() { res = x.Float(z) })
	c.Eval(hx.HashStr(what), cls == "finite", "Float/"+cls)
	if pi != nil {
		c.Violate("panic", fmt.Sprintf("%s: %s panic %q at %s", what, pi.Class, pi.Text, pi.Stack), "")
		return
	}
	if !hx.SameState(pre, hx.Snapshot(x)) {
		c.Violate("operand-modified", what+": x changed", "")
	}
	wantPrec := bp
	if shape != 1 {
		wantPrec = uint(math.Max(math.Ceil(float64(x.Prec())*(math.Ln10/math.Ln2)), 64))
	}
	if res.Prec() != wantPrec {
		c.Violate("wrong-precision", fmt.Sprintf("%s: result precision %d, want %d", what, res.Prec(), wantPrec), "")
		return
	}
	switch v.Form {
	case oracle.Zero:
		if res.Sign() != 0 || res.Signbit() != v.Neg {
			c.Violate("wrong-value", fmt.Sprintf("%s = %v", what, res), "")
		}
		return
	case oracle.Inf:
		if !res.IsInf() || res.Signbit() != v.Neg {
			c.Violate("wrong-value", fmt.Sprintf("%s = %v", what, res), "")
		}
		return
	}
	if cls == "beyond-binary-range" {
		// |x| is beyond every finite big.Float: the result saturates, with x's sign
		if wantInf := v.LeadExp() > 0; res.Signbit() != v.Neg || res.IsInf() != wantInf || (!wantInf && res.Sign() != 0) {
			c.Violate("wrong-value", fmt.Sprintf("%s = %v, want %s", what, res, map[bool]string{true: "an infinity", false: "a zero"}[wantInf]+" with the sign of x"), "")
		}
		return
	}
	if res.IsInf() || res.Sign() == 0 || res.Signbit() != v.Neg {
		c.Violate("wrong-value", fmt.Sprintf("%s = %v", what, res), "")
		return
	}
	// |res - x| <= naiveUlps x 2^(exp(res) - prec): cross-multiplied in integers
	rd := exactOfBigFloat(res)
	a := oracle.Val{Form: oracle.Finite, Neg: rd.Neg, Coef: rd.Coef, Exp: rd.Exp}
	s, ok := addDecVals(a, v.Negate())
	if !ok {
		c.Count("float_exact", 1)
		return
	}
	// one binary ulp of the result as an exact decimal
	ulp := exactOfBigFloat(new(big.Float).SetMantExp(big.NewFloat(1), res.MantExp(nil)-int(res.Prec())))
	lim := new(big.Int).Mul(ulp.Coef, big.NewInt(naiveUlps))
	if oracle.CmpMagDec(s.Coef, s.Exp, lim, ulp.Exp) > 0 {
		c.Violate("too-far-off", fmt.Sprintf("%s = %s: more than %d binary units in the last place away from x", what, res.Text('p', 0), naiveUlps), "")
	}
}
