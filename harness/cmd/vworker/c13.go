package main

import (
	"fmt"
	"math"
	"strconv"
	"strings"

	"github.com/db47h/decimal"

	"verifharness/hx"
	"verifharness/oracle"
)

// C13 — Text/Append/Format print x rounded once at the requested position under
// x's mode, laid out exactly like strconv.FormatFloat and the fmt verbs.

func init() {
	engines["C13"] = &engine{N: tierN(240000, 10000000), Setup: selfTest, Case: c13Case}
}

// c13TopDecadeF: the f layout of a value in the top decade of the exponent range (one per run: 2 GiB of output, a few
// seconds). d.ddd x 10^(MaxExp-1) printed with f and no fraction digits is MaxExp digits long and starts with x's digits.
func c13TopDecadeF(c *hx.Ctx, r *hx.RNG) {
	n := r.Range(1, 30)
	v := r.Finite(n, oracle.MaxExp)
	x := hx.Mk(v, uint(n), r.Mode())
	prec := []int{0, 0, 1, 3}[r.Intn(4)]
	what := fmt.Sprintf("len(Append(nil, 'f', %d)) of %s", prec, v.Full())
	c.Note(what)
	var out []byte
	pi := hx.Try(func() { out = x.Append(nil, 'f', prec) })
	c.Eval(hx.HashStr(what), true, "model/f/top-decade-2GiB")
	if pi != nil {
		c.Violate("panic", fmt.Sprintf("%s: %s panic %q at %s", what, pi.Class, pi.Text, pi.Stack), "")
		return
	}
	want := int(oracle.MaxExp)
	if v.Neg {
		want++
	}
	if prec > 0 {
		want += 1 + prec
	}
	head := strings.TrimLeft(string(out[:minInt(len(out), 40)]), "-")
	ds := v.Coef.String()
	if len(out) != want || !strings.HasPrefix(head, ds) || (len(head) > len(ds) && head[len(ds)] != '0') {
		c.Violate("model-differs", fmt.Sprintf("%s = %d bytes starting %q, want %d bytes starting with the digits %s and going on with zeros", what, len(out), head, want, ds), "")
	}
}

func c13Case(c *hx.Ctx, r *hx.RNG, idx int64) {
	if idx%4000000 == 29 {
		c13TopDecadeF(c, r)
		releaseHuge()
		return
	}
	if r.Chance(55) {
		c13Differential(c, r)
	} else {
		c13Model(c, r)
	}
}

// shortestIsExact reports whether strconv's shortest representation of f is its full decimal expansion.
func shortestIsExact(f float64) bool {
	if f == 0 || math.IsInf(f, 0) {
		return true
	}
	s := strconv.FormatFloat(f, 'e', -1, 64)
	mant := s[:strings.IndexByte(s, 'e')]
	mant = strings.TrimLeft(mant, "-")
	nd := int64(len(strings.TrimRight(strings.Replace(mant, ".", "", 1), "0")))
	if nd == 0 {
		nd = 1
	}
	ex := exactOfFloat(f)
	return oracle.Val{Form: oracle.Finite, Coef: ex.Coef}.MinPrec() == nd
}

func genFmtFloat(r *hx.RNG) float64 {
	switch r.Intn(10) {
	case 0, 1: // short decimal-looking values: many have an exact short expansion
		return float64(int64(r.U64()%2000000)-1000000) / []float64{1, 2, 4, 8, 16, 64, 1024, 4096}[r.Intn(8)]
	case 2: // around the %g thresholds 1e-5 .. 1e21 and carries 9.99 -> 10.0
		m := []float64{9.5, 9.96, 0.99951171875, 99999.5, 999999.5, 9999995, 0.000099999237060546875, 0.0001, 1e21, 1e20, 123456789, 0.5, 0.25, 0.125, 2.5, 1.5}[r.Intn(16)]
		if r.Bool() {
			m = -m
		}
		return m
	case 3:
		return math.Ldexp(float64(r.Range(1, 1<<20)), r.Range(-40, 40))
	case 4:
		return math.Copysign(0, float64(1-2*r.Intn(2)))
	case 5:
		return math.Inf(1 - 2*r.Intn(2))
	}
	f, _ := genF64(r)
	return f
}

func c13Differential(c *hx.Ctx, r *hx.RNG) {
	f := genFmtFloat(r)
	var v oracle.Val
	switch {
	case f == 0:
		v = oracle.Val{Form: oracle.Zero, Neg: math.Signbit(f)}
	case math.IsInf(f, 0):
		v = oracle.Val{Form: oracle.Inf, Neg: f < 0}
	default:
		ex := exactOfFloat(f)
		v = oracle.Val{Form: oracle.Finite, Neg: ex.Neg, Coef: ex.Coef, Exp: ex.Exp}
	}
	x := hx.MkR(r, v, digitsOf(v)+uint(r.Intn(3)), oracle.ToNearestEven)
	pre, preRaw := hx.Snapshot(x), hx.RawOf(x)
	exactShort := shortestIsExact(f)
	if r.Bool() { // Text / Append against strconv.FormatFloat
		ft := "eEfgG"[r.Intn(5)]
		prec := r.Range(0, 20)
		switch r.Intn(10) {
		case 0:
			prec = r.Range(20, 45)
		case 1, 2:
			if exactShort {
				prec = -1
			}
		}
		what := fmt.Sprintf("Text(%v, '%c', %d)", f, ft, prec)
		c.Note(what)
		want := strconv.FormatFloat(f, ft, prec, 64)
		var got, gotA string
		// the caller's buffer: exactly full, or with spare capacity (that Append may use, without disturbing what is there)
		buf := make([]byte, 2, 2+[]int{0, 0, 1, 7, 24, 64, 400, 4096}[r.Intn(8)])
		copy(buf, "<<")
		for i := range buf[2:cap(buf)] {
			buf[2:cap(buf)][i] = 0xAA
		}
		pi := hx.Try(func() {
			got = x.Text(ft, prec)
			gotA = string(x.Append(buf, ft, prec))
		})
		c.Eval(hx.HashStr(what), true, fmt.Sprintf("strconv/%c", ft))
		if c.WantSample(fmt.Sprintf("strconv/%c", ft)) {
			c.Sample(fmt.Sprintf("strconv/%c", ft), what+" = "+want)
		}
		if pi != nil {
			c.Violate("panic", fmt.Sprintf("%s: %s panic %q at %s", what, pi.Class, pi.Text, pi.Stack), "")
			return
		}
		if model := expectText(v, oracle.ToNearestEven, ft, prec); model != want {
			c.Inconclusive(fmt.Sprintf("oracle self-check: layout model gives %q, strconv %q for %s", model, want, what))
			return
		}
		if got != want {
			c.Violate("differs-from-strconv", fmt.Sprintf("%s = %q, strconv.FormatFloat gives %q", what, got, want), "")
			return
		}
		if gotA != "<<"+want {
			c.Violate("append-differs", fmt.Sprintf("Append of %s to a 2-byte buffer of capacity %d = %q", what, cap(buf), gotA), "")
		}
	} else { // fmt verbs with flags, width and precision against fmt on the float64
		verb := "eEfFgGv"[r.Intn(7)]
		var fs strings.Builder
		fs.WriteByte('%')
		for _, fl := range "+ -0" {
			if r.Chance(25) {
				if verb == 'v' && (fl == '+' || fl == ' ') {
					continue // fmt turns these into plusV/spaceV for built-in floats; a Formatter cannot observe that
				}
				fs.WriteRune(fl)
			}
		}
		if r.Chance(60) {
			fs.WriteString(strconv.Itoa(r.Range(0, 30)))
		}
		hasPrec := r.Chance(65)
		if !hasPrec && (verb == 'g' || verb == 'G' || verb == 'v') && !exactShort {
			hasPrec = true // precision-less %g prints the shortest form: only comparable when that is the exact expansion
		}
		if hasPrec {
			fs.WriteByte('.')
			fs.WriteString(strconv.Itoa(r.Range(0, 20)))
		}
		fs.WriteByte(verb)
		format := fs.String()
		what := fmt.Sprintf("Sprintf(%q, %v)", format, f)
		c.Note(what)
		want := fmt.Sprintf(format, f)
		var got string
		pi := hx.Try(func() { got = fmt.Sprintf(format, x) })
		c.Eval(hx.HashStr(what), true, fmt.Sprintf("fmt/%c", verb))
		if c.WantSample(fmt.Sprintf("fmt/%c", verb)) {
			c.Sample(fmt.Sprintf("fmt/%c", verb), what+" = "+want)
		}
		if pi != nil {
			c.Violate("panic", fmt.Sprintf("%s: %s panic %q at %s", what, pi.Class, pi.Text, pi.Stack), "")
			return
		}
		if got != want {
			c.Violate("differs-from-fmt", fmt.Sprintf("%s = %q, fmt on the float64 gives %q", what, got, want), "")
			return
		}
	}
	if !hx.SameState(pre, hx.Snapshot(x)) || !preRaw.Identical(hx.RawOf(x)) {
		c.Violate("operand-modified", "formatting changed x", "")
	}
}

func c13Model(c *hx.Ctx, r *hx.RNG) {
	mode := r.Mode()
	ft := "eEfgGpb"[r.Intn(7)]
	prec := r.Range(-1, 40)
	var v oracle.Val
	cls := "random"
	switch k := r.Intn(100); {
	case k < 5:
		v, cls = oracle.Val{Form: oracle.Zero, Neg: r.Bool()}, "zero"
	case k < 9:
		v, cls = oracle.Val{Form: oracle.Inf, Neg: r.Bool()}, "inf"
	case k < 55 && prec >= 0: // digits aimed at the rounding position
		p := prec + 1
		if ft == 'g' || ft == 'G' {
			p = maxI(prec, 1)
		}
		le := int64(r.Range(-8, 25))
		if ft != 'f' && r.Chance(8) { // the top (bottom) decade of the exponent range: a carry out of the rounding leaves it
			le = []int64{oracle.MaxExp, oracle.MaxExp, oracle.MaxExp - 1, oracle.MinExp, oracle.MinExp + 1}[r.Intn(5)]
		}
		if ft == 'f' {
			if r.Chance(40) {
				le = -int64(prec) - int64(r.Range(0, 3)) // the last printed place is at or above the leading digit
			}
			p = int(le) + prec // digits kept by %f: may be <= 0
		}
		if p >= 1 {
			d := r.RoundAimed(p)
			v = oracle.Val{Form: oracle.Finite, Neg: r.Bool(), Coef: hx.CoefOf(d), Exp: le - int64(len(d))}
			cls = "aimed-at-position"
			if le >= oracle.MaxExp-1 || le <= oracle.MinExp+1 {
				cls = "aimed-at-position-range-end"
			}
		} else {
			// the whole value lies below the last printed place: 0 or one unit
			d := r.Digits(r.Range(1, 30))
			if r.Chance(30) { // a half unit followed by zeros and, far below (possibly in a lower mantissa word), something or nothing
				d = append([]byte("5"), []byte(strings.Repeat("0", r.Range(0, 45)))...)
				if r.Chance(70) {
					d = append(d, '1'+byte(r.Intn(9)))
				}
			} else if r.Bool() {
				d[0] = "455691"[r.Intn(6)]
				if r.Chance(40) {
					d = d[:1]
				}
			}
			v = oracle.Val{Form: oracle.Finite, Neg: r.Bool(), Coef: hx.CoefOf(d), Exp: le - int64(len(d))}
			cls = "position-at-or-above-leading-digit"
		}
	default:
		le := r.LeadExp()
		if ft == 'f' || ft == 'g' || ft == 'G' {
			le = int64(r.Range(-60, 60))
			if r.Chance(10) {
				le = int64(r.Range(-3000, 3000))
			}
		}
		v = r.Finite(r.Range(1, 200), le)
	}
	if r.Intn(2500) == 0 && ft != 'p' && ft != 'b' {
		// runs of more than a million zeros: in front of the radix point ('f' of a short value with a huge exponent, 'g'
		// with a precision beyond it) or behind the digits ('e' with a precision a million above the digit count)
		v, cls = r.Finite(r.Range(1, 30), int64(r.Range(-20, 20))), "million-zeros"
		switch ft {
		case 'e', 'E':
			prec = r.Range(1000001, 1300000)
		case 'f':
			if r.Bool() {
				v.Exp += int64(r.Range(1000001, 1300000))
				prec = r.Range(0, 3)
			} else {
				prec = r.Range(1000001, 1300000)
			}
		default:
			v.Exp += int64(r.Range(1000001, 1200000))
			prec = r.Range(1200001, 1300000)
		}
	}
	v = inRange(v)
	xprec := digitsOf(v) + uint(r.Intn(3)*r.Intn(20))
	x := hx.MkR(r, v, xprec, mode)
	what := fmt.Sprintf("Text('%c', %d) of %s mode=%s prec=%d", ft, prec, v.Full(), oracle.ModeNames[mode], xprec)
	c.Note(what)
	if c.Verbose {
		fmt.Println("case:", what)
	}
	pre, preRaw := hx.Snapshot(x), hx.RawOf(x)
	var got string
	pi := hx.Try(func() { got = x.Text(ft, prec) })
	c.Eval(hx.HashStr(what), v.Form == oracle.Finite, fmt.Sprintf("model/%c/%s", ft, cls))
	c.Classes["mode/"+oracle.ModeNames[mode]]++
	if c.WantSample(fmt.Sprintf("model/%c/%s", ft, cls)) {
		c.Sample(fmt.Sprintf("model/%c/%s", ft, cls), what)
	}
	if pi != nil {
		c.Violate("panic", fmt.Sprintf("%s: %s panic %q at %s", what, pi.Class, pi.Text, pi.Stack), "")
		return
	}
	var want string
	switch ft {
	case 'p', 'b':
		want = expectPB(v, ft, int64(xprec))
	default:
		want = expectText(v, mode, ft, prec)
	}
	if c.Verbose {
		fmt.Printf("  got  %q\n  want %q\n", got, want)
	}
	if got != want {
		c.Violate("wrong-text", fmt.Sprintf("%s = %q, want %q", what, trunc120(got), trunc120(want)), carryPastMaxExp(v, mode, ft, prec))
		return
	}
	if !hx.SameState(pre, hx.Snapshot(x)) || !preRaw.Identical(hx.RawOf(x)) {
		c.Violate("operand-modified", what+": formatting changed x", "")
	}
	// Format: sign, width, '+', ' ', '0', '-' on top of the same digits (the float64 differential validates this emulation's
	// reference, fmt itself; here it is applied to values no float64 can hold, in all six modes)
	if r.Chance(35) && (ft == 'e' || ft == 'E' || ft == 'f' || ft == 'g' || ft == 'G') && prec >= 0 {
		verb := ft
		if ft == 'f' && r.Bool() {
			verb = 'F'
		}
		flags := ""
		for _, fl := range "+ -0" {
			if r.Chance(30) {
				flags += string(fl)
			}
		}
		width := -1
		if r.Chance(70) {
			width = r.Range(0, 60)
			if r.Chance(8) {
				width = r.Range(100, 900) // padding written in more than one piece
			}
		}
		format := "%" + flags
		if width >= 0 {
			format += strconv.Itoa(width)
		}
		format += "." + strconv.Itoa(prec) + string(verb)
		wantF := fmtEmulate(expectText(v, mode, ft, prec), flags, width, v.Form == oracle.Inf)
		var gotF string
		if pi := hx.Try(func() { gotF = fmt.Sprintf(format, x) }); pi != nil {
			c.Violate("panic", fmt.Sprintf("Sprintf(%q) of %s: %s panic %q", format, v.Full(), pi.Class, pi.Text), "")
			return
		}
		c.Count("fmt_model_cases", 1)
		if gotF != wantF {
			c.Violate("wrong-text", fmt.Sprintf("Sprintf(%q) of %s mode=%s = %q, want %q", format, v.Full(), oracle.ModeNames[mode], trunc120(gotF), trunc120(wantF)), carryPastMaxExp(v, mode, ft, prec))
			return
		}
	}
	// the other routes through Format: %s ('g', precision 10 unless given), %v without a precision (every digit), %b
	// with flags and width, and verbs Format does not know
	if r.Chance(20) && (v.Form != oracle.Finite || (v.LeadExp() > -3000 && v.LeadExp() < 3000)) {
		flags := ""
		for _, fl := range "+ -0" {
			if r.Chance(30) {
				flags += string(fl)
			}
		}
		width := -1
		if r.Chance(60) {
			width = r.Range(0, 60)
		}
		format := "%" + flags
		if width >= 0 {
			format += strconv.Itoa(width)
		}
		var want string
		switch r.Intn(4) {
		case 0:
			p := 10
			if r.Bool() {
				p = r.Range(0, 30)
				format += "." + strconv.Itoa(p)
			}
			format += "s"
			want = fmtEmulate(expectText(v, mode, 'g', p), flags, width, v.Form == oracle.Inf)
		case 1:
			format += "v"
			want = fmtEmulate(expectText(v, mode, 'g', -1), flags, width, v.Form == oracle.Inf)
		case 2:
			format += "b"
			want = fmtEmulate(expectPB(v, 'b', int64(xprec)), flags, width, v.Form == oracle.Inf)
		default: // (%p and %T never reach a Formatter: fmt prints the pointer and the type itself)
			vb := "dxXoqcUt"[r.Intn(8)]
			format = "%" + string(vb) // (flags and width are not applied to the bad-verb text)
			want = "%!" + string(vb) + "(*decimal.Decimal=" + expectText(v, mode, 'g', 10) + ")"
		}
		var gotF string
		if pi := hx.Try(func() { gotF = fmt.Sprintf(format, x) }); pi != nil {
			c.Violate("panic", fmt.Sprintf("Sprintf(%q) of %s: %s panic %q", format, v.Full(), pi.Class, pi.Text), "")
			return
		}
		c.Count("fmt_other_verbs", 1)
		if gotF != want {
			c.Violate("wrong-text", fmt.Sprintf("Sprintf(%q) of %s (prec %d) mode=%s = %q, want %q", format, v.Full(), xprec, oracle.ModeNames[mode], trunc120(gotF), trunc120(want)), "")
			return
		}
	}
	// String() is Text('g', 10)
	if r.Chance(10) {
		if s := x.String(); s != expectText(v, mode, 'g', 10) {
			c.Violate("wrong-text", fmt.Sprintf("String() of %s = %q, want %q", v.Full(), s, expectText(v, mode, 'g', 10)), carryPastMaxExp(v, mode, 'g', 10))
		}
	}
}

// expectPB is the layout of the non-standard formats: 'p' -0.ddde±x, 'b' -dddde±x with exactly prec digits.
func expectPB(v oracle.Val, ft byte, prec int64) string {
	sg := ""
	if v.Neg {
		sg = "-"
	}
	switch v.Form {
	case oracle.Zero:
		return sg + "0"
	case oracle.Inf:
		if v.Neg {
			return "-Inf"
		}
		return "+Inf"
	}
	ds, dp := digitsOfVal(v)
	if ft == 'p' {
		s := sg + "0." + ds + "e"
		if dp >= 0 {
			s += "+"
		}
		return s + strconv.FormatInt(dp, 10)
	}
	for int64(len(ds)) < prec {
		ds += "0"
	}
	e := dp - prec
	s := sg + ds[:prec] + "e"
	if e >= 0 {
		s += "+"
	}
	return s + strconv.FormatInt(e, 10)
}

var _ = decimal.MaxExp

// carryPastMaxExp is the predicate of D27 (repaired by f6f5f29; the entry in known_findings.json is 'fixed' and suppresses
// nothing: a violation tagged with this predicate is reported like any other): x's leading digit sits at
// MaxExp and rounding at the requested position carries into 10^MaxExp, a value the
// library cannot hold in the temporary it rounds into (it prints a zero instead).
func carryPastMaxExp(v oracle.Val, mode int, ft byte, prec int) string {
	if v.Form != oracle.Finite || prec < 0 || v.LeadExp() != oracle.MaxExp {
		return ""
	}
	_, dp := digitsOfVal(v)
	var place int64
	switch ft {
	case 'e', 'E':
		place = dp - 1 - int64(prec)
	case 'f':
		place = -int64(prec)
	case 'g', 'G':
		if prec == 0 {
			prec = 1
		}
		place = dp - int64(prec)
	default:
		return ""
	}
	r := oracle.RoundToPlace(oracle.ExDec{Neg: v.Neg, Coef: v.Coef, Exp: v.Exp}, place, mode)
	if r.V.Form == oracle.Finite && r.V.LeadExp() > oracle.MaxExp {
		return "format_rounding_carries_past_max_exp"
	}
	return ""
}

// fmtEmulate applies fmt's sign, width and padding rules for floating-point verbs to a number text produced without flags.
func fmtEmulate(body, flags string, width int, isInf bool) string {
	plus, space, minus, zero := strings.Contains(flags, "+"), strings.Contains(flags, " "), strings.Contains(flags, "-"), strings.Contains(flags, "0")
	sign := ""
	switch {
	case strings.HasPrefix(body, "-"):
		sign, body = "-", body[1:]
	case strings.HasPrefix(body, "+"): // +Inf
		body = body[1:]
		sign = "+"
		if space && !plus {
			sign = " "
		}
	case plus:
		sign = "+"
	case space:
		sign = " "
	}
	pad := 0
	if width > len(sign)+len(body) {
		pad = width - len(sign) - len(body)
	}
	switch {
	case minus:
		return sign + body + strings.Repeat(" ", pad)
	case zero && !isInf:
		return sign + strings.Repeat("0", pad) + body
	}
	return strings.Repeat(" ", pad) + sign + body
}
