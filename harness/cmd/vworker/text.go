package main

import (
	"strconv"
	"strings"

	"verifharness/oracle"
)

// A port of strconv's %e / %f / %g layout rules over a digit string, used as
// the model for arbitrary Decimals; validated against strconv itself on every
// run (the float64 differential cases feed it too).

// digitsOfVal returns the significant digits of v without trailing zeros and the
// position dp of the decimal point (value = 0.d1d2... x 10^dp); ("", 0) for zero.
func digitsOfVal(v oracle.Val) (string, int64) {
	if v.Form != oracle.Finite {
		return "", 0
	}
	s := v.Strip()
	ds := s.Coef.String()
	return ds, int64(len(ds)) + s.Exp
}

func layoutE(neg bool, ds string, dp int64, prec int, ch byte) string {
	var b strings.Builder
	if neg {
		b.WriteByte('-')
	}
	first := byte('0')
	if len(ds) > 0 {
		first = ds[0]
	}
	b.WriteByte(first)
	if prec > 0 {
		b.WriteByte('.')
		for i := 1; i <= prec; i++ {
			if i < len(ds) {
				b.WriteByte(ds[i])
			} else {
				b.WriteByte('0')
			}
		}
	}
	b.WriteByte(ch)
	exp := dp - 1
	if len(ds) == 0 {
		exp = 0
	}
	if exp < 0 {
		b.WriteByte('-')
		exp = -exp
	} else {
		b.WriteByte('+')
	}
	if exp < 10 {
		b.WriteByte('0')
	}
	b.WriteString(strconv.FormatInt(exp, 10))
	return b.String()
}

func layoutF(neg bool, ds string, dp int64, prec int) string {
	var b strings.Builder
	if neg {
		b.WriteByte('-')
	}
	if dp > 0 {
		for i := int64(0); i < dp; i++ {
			if i < int64(len(ds)) {
				b.WriteByte(ds[i])
			} else {
				b.WriteByte('0')
			}
		}
	} else {
		b.WriteByte('0')
	}
	if prec > 0 {
		b.WriteByte('.')
		for i := 0; i < prec; i++ {
			j := dp + int64(i)
			if j >= 0 && j < int64(len(ds)) {
				b.WriteByte(ds[j])
			} else {
				b.WriteByte('0')
			}
		}
	}
	return b.String()
}

// layoutG lays out the digits of a value already rounded to prec significant digits.
func layoutG(neg bool, ds string, dp int64, prec int, shortest bool, ch byte) string {
	eprec := prec
	nd := len(ds)
	if eprec > nd && int64(nd) >= dp {
		eprec = nd
	}
	if shortest {
		eprec = 6
	}
	exp := dp - 1
	if exp < -4 || exp >= int64(eprec) {
		if prec > nd {
			prec = nd
		}
		return layoutE(neg, ds, dp, prec-1, ch+'e'-'g')
	}
	if int64(prec) > dp {
		prec = nd
	}
	fp := int64(prec) - dp
	if fp < 0 {
		fp = 0
	}
	return layoutF(neg, ds, dp, int(fp))
}

// expectText is the model of x.Text(format, prec) for format in e E f g G:
// x rounded once under its own mode at the requested position, then laid out.
func expectText(v oracle.Val, mode int, format byte, prec int) string {
	if v.Form == oracle.Inf {
		if v.Neg {
			return "-Inf"
		}
		return "+Inf"
	}
	shortest := prec < 0
	ds, dp := digitsOfVal(v)
	if shortest {
		switch format {
		case 'e', 'E':
			prec = len(ds) - 1
			if prec < 0 {
				prec = 0
			}
		case 'f':
			prec = int(int64(len(ds)) - dp)
			if prec < 0 {
				prec = 0
			}
		case 'g', 'G':
			prec = len(ds)
		}
	} else if v.Form == oracle.Finite {
		var place int64
		switch format {
		case 'e', 'E':
			place = dp - 1 - int64(prec)
		case 'f':
			place = -int64(prec)
		case 'g', 'G':
			if prec == 0 {
				prec = 1
			}
			place = dp - int64(prec)
		}
		r := oracle.RoundToPlace(oracle.ExDec{Neg: v.Neg, Coef: v.Coef, Exp: v.Exp}, place, mode)
		ds, dp = digitsOfVal(r.V)
	} else if (format == 'g' || format == 'G') && prec == 0 {
		prec = 1
	}
	switch format {
	case 'e', 'E':
		return layoutE(v.Neg, ds, dp, prec, format)
	case 'f':
		return layoutF(v.Neg, ds, dp, prec)
	default:
		return layoutG(v.Neg, ds, dp, prec, shortest, format)
	}
}
