package main

import (
	"bytes"
	"fmt"
	"math"
	"math/big"
	"strconv"
	"strings"

	"github.com/db47h/decimal"

	"verifharness/hx"
	"verifharness/oracle"
)

// C12 — parsing is exact-then-rounded for decimal literals, exact or within one
// unit for binary/octal/hex literals and 'p' exponents, total on arbitrary input
// (error => nil result, never a panic), and accepts the same language as math/big.

func init() {
	engines["C12"] = &engine{N: tierN(260000, 15000000), Setup: selfTest, Case: c12Case}
}

func c12Case(c *hx.Ctx, r *hx.RNG, idx int64) {
	switch k := r.Intn(100); {
	case k < 32:
		c12Decimal(c, r)
	case k < 50:
		c12Binary(c, r)
	case k < 60:
		c12Range(c, r)
	default:
		c12Language(c, r)
	}
}

// parseVia calls one of the five entry points; ok reports acceptance, res is the returned pointer where there is one.
func parseVia(via int, z *decimal.Decimal, s string, base int, prec uint, mode int) (res *decimal.Decimal, hasRes bool, b int, ok bool, err error) {
	switch via {
	case 0:
		res, b, err = z.Parse(s, base)
		return res, true, b, err == nil, err
	case 1:
		res, ok = z.SetString(s)
		return res, true, 0, ok, nil
	case 2:
		res, b, err = decimal.ParseDecimal(s, base, prec, decimal.RoundingMode(mode))
		return res, true, b, err == nil, err
	case 3:
		err = z.UnmarshalText([]byte(s))
		return z, false, 0, err == nil, err
	default:
		_, err = fmt.Sscan(s, z)
		return z, false, 0, err == nil, err
	}
}

var viaNames = []string{"Parse", "SetString", "ParseDecimal", "UnmarshalText", "Scan"}

func c12Decimal(c *hx.Ctx, r *hx.RNG) {
	l := hx.LimitsFor(c.Tier)
	lit := genLiteral10(r, l)
	mode := r.Mode()
	p := setterPrec(r, len(lit.digits))
	if r.Chance(10) {
		p = int64(r.Range(1, 6))
	}
	via := r.Intn(5)
	base := 10
	s := lit.text
	if via == 1 || via == 3 || via == 4 || r.Bool() {
		base = 0
		s = lit.under
	}
	if via == 4 {
		s = lit.text // fmt's scanner tokenises on its own rules: plain rendering, no sign-only tokens
		if strings.ContainsAny(s, " \t\n") {
			via = 0
		}
	}
	what := fmt.Sprintf("%s(%q, base %d) prec=%d mode=%s", viaNames[via], s, base, p, oracle.ModeNames[mode])
	c.Note(what)
	if c.Verbose {
		fmt.Println("case:", what)
	}
	z := usedRecv(r, p, mode) // previous contents (incl. a stale accuracy) must not matter
	var res *decimal.Decimal
	var hasRes, ok bool
	var b int
	var err error
	precArg := uint(p)
	if via == 2 && r.Chance(6) {
		// ParseDecimal takes its precision as a uint: beyond MaxPrec it is MaxPrec (SetPrec's documented clamp), not the
		// low 32 bits of the argument
		precArg = []uint{1 << 32, 1<<32 + 7, math.MaxUint64, decimal.MaxPrec + 1, 1<<40 + uint(r.Range(1, 99))}[r.Intn(5)]
		p = decimal.MaxPrec
		what += fmt.Sprintf(" (precision argument %d)", precArg)
	}
	pi := hx.Try(func() { res, hasRes, b, ok, err = parseVia(via, z, s, base, precArg, mode) })
	c.Eval(hx.HashStr(what), true, "decimal/"+viaNames[via])
	if c.WantSample("decimal/" + viaNames[via]) {
		c.Sample("decimal/"+viaNames[via], what)
	}
	if pi != nil {
		c.Violate("panic", fmt.Sprintf("%s: %s panic %q at %s", what, pi.Class, pi.Text, pi.Stack), "")
		return
	}
	if !ok {
		c.Violate("rejected-valid-literal", fmt.Sprintf("%s: %v", what, err), "")
		return
	}
	if hasRes && res == nil {
		c.Violate("nil-result-on-success", what, "")
		return
	}
	if (via == 0 || via == 2) && b != 10 {
		c.Violate("wrong-base", fmt.Sprintf("%s: reported base %d", what, b), "")
	}
	got := hx.Snapshot(res)
	pe := p
	if p == 0 {
		pe = 34
	}
	if int64(got.Prec) != pe {
		c.Violate("wrong-precision", fmt.Sprintf("%s: result precision %d, want %d", what, got.Prec, pe), "")
	}
	if got.Mode != mode {
		c.Violate("wrong-mode", fmt.Sprintf("%s: result mode %d", what, got.Mode), "")
	}
	o := lit.outcome()
	if valueVerdict(c, what, o, got, pe, mode, "") {
		if _, am := o.Check(got.V, got.Acc, pe, mode); am != "" {
			c.Violate("wrong-acc", what+": "+am, "")
		}
	}
}

// genBinaryLiteral builds a literal in base 2, 8 or 16 and/or with a 'p' exponent together with its exact value m x 2^k.
func genBinaryLiteral(r *hx.RNG) (text string, neg bool, m *big.Int, k int64, wantBase int) {
	base := []int{2, 8, 16, 10}[r.Intn(4)]
	bits := map[int]int64{2: 1, 8: 3, 16: 4}[base]
	alpha := "0123456789abcdefABCDEF"[:map[int]int{2: 2, 8: 8, 16: 22, 10: 10}[base]]
	nInt, nFrac := r.Range(0, 30), 0
	if r.Bool() {
		nFrac = r.Range(1, 30)
	}
	if nInt == 0 && nFrac == 0 {
		nInt = 1
	}
	var ds []byte
	for i := 0; i < nInt+nFrac; i++ {
		ds = append(ds, alpha[r.Intn(len(alpha))])
	}
	m = new(big.Int)
	m.SetString(strings.ToLower(string(ds)), base)
	cancel := int64(0)
	if base != 10 && nFrac == 0 && r.Chance(25) {
		// a short value written with a long mantissa: c x 2^k, to be scaled back by a p exponent of about -k
		// (the power of two then has more digits than the value: it must still be exact for the value to come out exact)
		kk := int64(r.Range(40, 200))
		m = new(big.Int).Lsh(big.NewInt(int64(r.Range(1, 2000))), uint(kk))
		ds = []byte(m.Text(base))
		nInt = len(ds)
		cancel = kk
	}
	fives := int64(0)
	if cancel == 0 && nFrac == 0 && r.Chance(15) {
		// the mirror image: a mantissa c x 5^j scaled up by a p exponent of about +j - the value c x 10^j is short, the
		// power of two that produces it is long
		fives = int64(r.Range(30, 400))
		m = new(big.Int).Mul(big.NewInt(int64(r.Range(1, 2000))), new(big.Int).Exp(big.NewInt(5), big.NewInt(fives), nil))
		ds = []byte(m.Text(base))
		nInt = len(ds)
	}
	var b strings.Builder
	neg = r.Bool()
	if neg {
		b.WriteByte('-')
	}
	switch base {
	case 2:
		b.WriteString([]string{"0b", "0B"}[r.Intn(2)])
	case 8:
		b.WriteString([]string{"0o", "0O"}[r.Intn(2)])
	case 16:
		b.WriteString([]string{"0x", "0X"}[r.Intn(2)])
	}
	b.Write(ds[:nInt])
	if nFrac > 0 {
		b.WriteByte('.')
		b.Write(ds[nInt:])
	}
	k = -bits * int64(nFrac)
	pexp := int64(0)
	hasP := base == 10 || r.Chance(70)
	if base == 10 {
		// decimal mantissa with a binary exponent: value = digits x 10^-nFrac x 2^p; keep it a pure m x 2^k by forbidding a fraction
		b.Reset()
		if neg {
			b.WriteByte('-')
		}
		b.Write(ds[:nInt+nFrac])
		k = 0
	}
	if cancel != 0 || fives != 0 {
		hasP = true
	}
	if hasP {
		pexp = int64(r.Range(-300, 300))
		if cancel != 0 {
			pexp = -cancel + int64(r.Range(-12, 12))
		}
		if fives != 0 {
			pexp = fives + int64(r.Range(-12, 12))
		}
		if r.Chance(20) && cancel == 0 && fives == 0 {
			pexp = int64(r.Range(-3000, 3000))
		}
		fmt.Fprintf(&b, "%c%d", "pP"[r.Intn(2)], pexp)
	}
	return b.String(), neg, m, k + pexp, base
}

func c12Binary(c *hx.Ctx, r *hx.RNG) {
	text, neg, m, k, wantBase := genBinaryLiteral(r)
	mode := r.Mode()
	p := int64(r.Range(1, 60))
	// exact decimal value of m x 2^k
	var ex oracle.ExDec
	if k >= 0 {
		ex = oracle.ExDec{Neg: neg, Coef: new(big.Int).Lsh(m, uint(k)), Exp: 0}
	} else {
		five := new(big.Int).Exp(big.NewInt(5), big.NewInt(-k), nil)
		ex = oracle.ExDec{Neg: neg, Coef: new(big.Int).Mul(m, five), Exp: k}
	}
	full := int64(0)
	if m.Sign() != 0 {
		full = (oracle.Val{Form: oracle.Finite, Coef: ex.Coef}).MinPrec()
		if r.Chance(30) && full < 3000 {
			p = full + int64(r.Range(0, 4))
		}
	}
	if k >= 0 && r.Chance(8) {
		// a non-negative net binary exponent is applied by a multiplication: nothing is allocated by the precision, so the
		// receiver may have one from the top of the range (the value is then stored exactly)
		p = int64(hugePrec(r))
	}
	what := fmt.Sprintf("Parse(%q, 0) prec=%d mode=%s", text, p, oracle.ModeNames[mode])
	c.Note(what)
	if c.Verbose {
		fmt.Println("case:", what)
	}
	z := newRecv(p, mode)
	var res *decimal.Decimal
	var b int
	var err error
	pi := hx.Try(func() { res, b, err = z.Parse(text, 0) })
	cls := fmt.Sprintf("binary/base%d", wantBase)
	c.Eval(hx.HashStr(what), m.Sign() != 0, cls)
	if c.WantSample(cls) {
		c.Sample(cls, what)
	}
	if pi != nil {
		c.Violate("panic", fmt.Sprintf("%s: %s panic %q at %s", what, pi.Class, pi.Text, pi.Stack), "")
		return
	}
	if err != nil || res == nil {
		c.Violate("rejected-valid-literal", fmt.Sprintf("%s: %v", what, err), "")
		return
	}
	if b != wantBase {
		c.Violate("wrong-base", fmt.Sprintf("%s: reported base %d, want %d", what, b, wantBase), "")
	}
	got := hx.Snapshot(res)
	if m.Sign() == 0 {
		if got.V.Form != oracle.Zero || got.V.Neg != neg {
			c.Violate("wrong-value", fmt.Sprintf("%s: stored %s, want a zero", what, got), "")
		}
		return
	}
	if full <= p {
		c.Count("binary_exactly_representable", 1)
		if !oracle.Equal(got.V, oracle.Val{Form: oracle.Finite, Neg: neg, Coef: ex.Coef, Exp: ex.Exp}) {
			c.Violate("not-exact", fmt.Sprintf("%s: the value has %d digits and fits, but stored %s", what, full, got.V.Full()), "")
		}
		return
	}
	want := oracle.RoundOnce(ex, p, mode)
	if !withinUlps(got.V, want.V, p, 1) {
		c.Violate("more-than-one-unit-off", fmt.Sprintf("%s: stored %s, correctly rounded %s", what, got.V.Full(), want.V.Full()), "")
	}
}

// c12Language: totality, nil result on error, and the accepted language / detected base equal to math/big's.
func c12Language(c *hx.Ctx, r *hx.RNG) {
	s := genLiteralish(r)
	if r.Chance(25) { // valid-looking literal with trailing garbage or truncated
		lit := genLiteral10(r, hx.LimitsFor("quick"))
		s = lit.under
		if len(s) > 60 {
			s = lit.text
		}
		switch r.Intn(4) {
		case 0:
			s += []string{"x", " ", "e", "_", ".", "-", "p5", "e+", "1e", "\x00"}[r.Intn(10)]
		case 1:
			s = s[:r.Intn(len(s)+1)]
		case 2:
			s = []string{" ", " ", "+", "-", "-+", "+-", "--", "++"}[r.Intn(8)] + s // (a second sign in front of a signed or unsigned literal)
		}
	}
	if r.Chance(3) { // the infinity spellings and their neighbours
		s = []string{"", "+", "-", "+-", " ", "-+", "--", "++", "+ ", "-_"}[r.Intn(10)] + []string{"Inf", "inf", "INF", "iNF", "Infinity", "infinity", "in", "Inff", "inf ", "Inf.", "Inf0", "nan", "NaN", "i", "I", "1nf", "<nil>", "null", "nil", "Null", "NULL", "true", "0x", "undefined", "none", "{}"}[r.Intn(26)]
	}
	base := []int{0, 2, 8, 10, 16}[r.Intn(5)]
	mode := r.Mode()
	p := int64(r.Range(0, 40))
	what := fmt.Sprintf("Parse(%q, %d)", s, base)
	c.Note(what)
	if c.Verbose {
		fmt.Println("case:", what)
	}
	// all five entry points: totality and nil-on-error
	var accepted bool
	var gotBase int
	var parsed hx.State
	for via := 0; via < 5; via++ {
		if (via == 1 || via == 3 || via == 4) && base != 0 {
			continue
		}
		z := newRecv(p, mode)
		var res *decimal.Decimal
		var hasRes, ok bool
		var b int
		pi := hx.Try(func() { res, hasRes, b, ok, _ = parseVia(via, z, s, base, uint(p), mode) })
		c.Count("entry_point_calls", 1)
		if pi != nil {
			c.Violate("panic", fmt.Sprintf("%s(%q, %d): %s panic %q at %s", viaNames[via], s, base, pi.Class, pi.Text, pi.Stack), "")
			return
		}
		if !ok && hasRes && res != nil {
			c.Violate("non-nil-result-with-error", fmt.Sprintf("%s(%q, %d) failed but returned a non-nil *Decimal (%s)", viaNames[via], s, base, hx.Snapshot(res)), "")
			return
		}
		if ok {
			if hasRes && res == nil {
				c.Violate("nil-result-on-success", fmt.Sprintf("%s(%q, %d)", viaNames[via], s, base), "")
				return
			}
			if msg := hx.Canonical(z); msg != "" {
				c.Violate("not-canonical", fmt.Sprintf("%s(%q, %d): %s", viaNames[via], s, base, msg), "")
				return
			}
		}
		if via == 0 {
			accepted, gotBase = ok, b
			if ok {
				parsed = hx.Snapshot(res)
			}
		} else if via < 4 {
			// SetString, ParseDecimal and UnmarshalText are Parse under another signature: same language, same value
			c.Count("entry_point_agreement_checks", 1)
			if ok != accepted {
				c.Violate("entry-points-disagree", fmt.Sprintf("%s(%q) accepted=%v but Parse(%q, %d) accepted=%v", viaNames[via], s, ok, s, base, accepted), "")
				return
			}
			if ok {
				zz := z
				if hasRes {
					zz = res
				}
				if got := hx.Snapshot(zz); got.Prec != parsed.Prec || got.Mode != parsed.Mode || got.Acc != parsed.Acc || got.V.Form != parsed.V.Form || got.V.Neg != parsed.V.Neg || !oracle.Equal(got.V, parsed.V) {
					c.Violate("entry-points-disagree", fmt.Sprintf("%s(%q) stored %s, Parse(%q, %d) with the same precision and mode stored %s", viaNames[via], s, got, s, base, parsed), "")
					return
				}
			}
		}
	}
	cls := "language/rejected"
	if accepted {
		cls = "language/accepted"
	}
	c.Eval(hx.HashStr(what), true, cls)
	if c.WantSample(cls) {
		c.Sample(cls, what)
	}
	// reference language: math/big.Float.Parse. Its binary exponent range is narrower than the decimal one here, so
	// literals that math/big could reject or saturate for range reasons alone are decided by the int32 rule instead.
	bf := new(big.Float).SetPrec(64)
	var refOK bool
	var refBase int
	var refErr error
	rpi := hx.Try(func() {
		_, refBase, refErr = bf.Parse(s, base)
		refOK = refErr == nil
	})
	if rpi != nil {
		c.Count("reference_panicked", 1)
		return
	}
	c12ScanDifferential(c, s)
	if isInfLiteral(s) {
		if !accepted {
			c.Violate("language-differs", what+": infinity literal rejected", "")
		}
		return
	}
	expMag, hasHugeExp := exponentMagnitude(s)
	if hasHugeExp || expMag > 10000 {
		// outside the comparable window: only the range rule can be checked, and only for syntactically plain decimal literals
		c.Count("language_outside_reference_window", 1)
		return
	}
	c.Count("language_compared_with_math_big", 1)
	if accepted != refOK {
		c.Violate("language-differs", fmt.Sprintf("%s: accepted=%v, math/big accepted=%v (%v)", what, accepted, refOK, refErr), "")
		return
	}
	if accepted && gotBase != refBase {
		c.Violate("base-differs", fmt.Sprintf("%s: base %d, math/big says %d", what, gotBase, refBase), "")
	}
}

func isInfLiteral(s string) bool {
	t := strings.TrimLeft(s, "+-")
	return (t == "Inf" || t == "inf") && len(s)-len(t) <= 1
}

// exponentMagnitude finds the exponent digits after the last e/E/p/P and returns their magnitude (huge = does not fit comfortably).
func exponentMagnitude(s string) (mag int64, huge bool) {
	// the largest digit run after ANY exponent marker: a scanner that stops at the first complete number must not be
	// handed an enormous exponent that merely is not the last one in the string
	for i := 0; i < len(s); i++ {
		if strings.IndexByte("eEpP", s[i]) >= 0 {
			m, h := exponentAt(s, i)
			if h {
				return 0, true
			}
			if m > mag {
				mag = m
			}
		}
	}
	return mag, false
}

func exponentAt(s string, i int) (mag int64, huge bool) {
	t := strings.TrimLeft(s[i+1:], "+-")
	n := int64(0)
	digits := 0
	for _, ch := range t {
		if ch == '_' {
			continue
		}
		if ch < '0' || ch > '9' {
			break
		}
		digits++
		if digits > 15 {
			return 0, true
		}
		n = n*10 + int64(ch-'0')
	}
	return n, false
}

// c12Range: exponents around and far beyond the int32 / int64 limits. A literal is accepted exactly when its exponent
// text fits an int64 and the leading digit's exponent lies in [MinExp, MaxExp] (a zero mantissa only needs the former).
func c12Range(c *hx.Ctx, r *hx.RNG) {
	if r.Chance(35) {
		c12RangeBinary(c, r)
		return
	}
	two := big.NewInt(2)
	anchors := []*big.Int{
		new(big.Int).Exp(two, big.NewInt(31), nil), new(big.Int).Exp(two, big.NewInt(32), nil),
		new(big.Int).Exp(two, big.NewInt(63), nil), new(big.Int).Exp(two, big.NewInt(64), nil),
		new(big.Int).Mul(new(big.Int).Exp(two, big.NewInt(64), nil), big.NewInt(int64(r.Range(2, 9)))),
		new(big.Int).Exp(two, big.NewInt(65), nil), hx.CoefOf(r.Digits(r.Range(11, 30))),
	}
	e := new(big.Int).Set(anchors[r.Intn(len(anchors))])
	e.Add(e, big.NewInt(int64(r.Range(-400, 400))))
	if r.Chance(20) {
		e.Add(e, big.NewInt(int64(r.Range(-200000, 200000))))
	}
	if r.Bool() {
		e.Neg(e)
	}
	nd := r.Range(1, 40)
	ds := r.Digits(nd)
	zero := r.Chance(8)
	if zero {
		ds = []byte(strings.Repeat("0", nd))
	}
	k := nd // digits before the point
	hasPoint := r.Bool()
	if hasPoint {
		k = r.Intn(nd + 1)
	}
	var b strings.Builder
	neg := r.Bool()
	if neg {
		b.WriteByte('-')
	}
	b.Write(ds[:k])
	if hasPoint {
		b.WriteByte('.')
		b.Write(ds[k:])
	}
	b.WriteByte("eE"[r.Intn(2)])
	es := e.String()
	if r.Chance(20) && e.Sign() >= 0 {
		es = "+" + es
	}
	if r.Chance(15) { // leading zeros do not change the exponent
		if es[0] == '-' || es[0] == '+' {
			es = es[:1] + "000" + es[1:]
		} else {
			es = "00" + es
		}
	}
	b.WriteString(es)
	text := b.String()
	what := fmt.Sprintf("Parse(%q, 10)", text)
	c.Note(what)
	if c.Verbose {
		fmt.Println("case:", what)
	}
	// expected verdict
	fitsInt64 := e.IsInt64()
	coef, _ := new(big.Int).SetString(string(ds), 10)
	wantOK := fitsInt64
	var o oracle.Outcome
	if fitsInt64 && !zero {
		lead := new(big.Int).Add(e, big.NewInt(int64(k))) // exponent of the first written digit ...
		// ... minus the leading zeros of the digit string
		lz := 0
		for lz < nd && ds[lz] == '0' {
			lz++
		}
		lead.Sub(lead, big.NewInt(int64(lz)))
		wantOK = lead.Cmp(big.NewInt(oracle.MinExp)) >= 0 && lead.Cmp(big.NewInt(oracle.MaxExp)) <= 0
		if wantOK {
			o = oracle.Outcome{Ex: oracle.ExDec{Neg: neg, Coef: coef, Exp: e.Int64() - int64(nd-k)}}
		}
	}
	mode := r.Mode()
	p := int64(r.Range(1, 45))
	z := usedRecv(r, p, mode)
	var res *decimal.Decimal
	var err error
	pi := hx.Try(func() { res, _, err = z.Parse(text, 10) })
	cls := "range/rejected"
	if wantOK {
		cls = "range/accepted"
	}
	c.Eval(hx.HashStr(what), true, cls)
	if c.WantSample(cls) {
		c.Sample(cls, what)
	}
	if pi != nil {
		c.Violate("panic", fmt.Sprintf("%s: %s panic %q at %s", what, pi.Class, pi.Text, pi.Stack), "")
		return
	}
	if (err == nil) != wantOK {
		c.Violate("exponent-range", fmt.Sprintf("%s: accepted=%v (result %v), but the exponent %s with %d digit(s) before the point must be accepted=%v", what, err == nil, res != nil, e, k, wantOK), "")
		return
	}
	if err != nil {
		if res != nil {
			c.Violate("non-nil-result-with-error", what, "")
		}
		return
	}
	got := hx.Snapshot(res)
	if zero {
		if got.V.Form != oracle.Zero || got.V.Neg != neg {
			c.Violate("wrong-value", fmt.Sprintf("%s: stored %s, want a zero", what, got), "")
		}
		return
	}
	valueVerdict(c, what, o, got, p, mode, "")
}

// c12ScanDifferential: fmt's scanner hands runes to Scan; *big.Float implements the same fmt.Scanner contract with the
// same grammar, so both must accept or reject the same inputs and, when they accept, must have read the same number.
func c12ScanDifferential(c *hx.Ctx, s string) {
	if mag, huge := exponentMagnitude(s); huge || mag > 300 || len(s) > 200 {
		return
	}
	z := new(decimal.Decimal).SetPrec(80)
	bf := new(big.Float).SetPrec(600)
	var e1, e2 error
	// through Sscan (verb 'v'), or through Sscanf with one of the floating-point verbs: *big.Float's Scan reads the same
	// base-0 grammar whatever the verb, and so must this one
	format := []string{"", "", "%v", "%b", "%e", "%E", "%f", "%F", "%g", "%G"}[hx.HashStr(s)%10]
	scan := func(dst interface{}) (err error) {
		if format == "" {
			_, err = fmt.Sscan(s, dst)
		} else {
			_, err = fmt.Sscanf(s, format, dst)
		}
		return
	}
	if pi := hx.Try(func() { e1 = scan(z) }); pi != nil {
		c.Violate("panic", fmt.Sprintf("Sscan(%q) %s: %s panic %q", s, format, pi.Class, pi.Text), "")
		return
	}
	if pi := hx.Try(func() { e2 = scan(bf) }); pi != nil {
		return
	}
	s = fmt.Sprintf("%s [%s]", s, format)
	c.Count("scan_compared_with_math_big", 1)
	if (e1 == nil) != (e2 == nil) {
		c.Violate("scan-language-differs", fmt.Sprintf("Sscan(%q): accepted=%v, *big.Float accepted=%v (%v / %v)", s, e1 == nil, e2 == nil, e1, e2), "")
		return
	}
	if e1 != nil || bf.IsInf() || z.IsInf() {
		return
	}
	// same number read? compare as rationals with a relative tolerance far below either precision's resolution of a wrong digit
	a, _ := z.Rat(nil)
	b, _ := bf.Rat(nil)
	if a == nil || b == nil {
		return
	}
	d := new(big.Rat).Sub(a, b)
	d.Abs(d)
	tol := new(big.Rat).Abs(b)
	tol.Mul(tol, new(big.Rat).SetFrac(big.NewInt(1), oracle.Pow10(60)))
	if d.Cmp(tol) > 0 {
		c.Violate("scan-value-differs", fmt.Sprintf("Sscan(%q) read %s, *big.Float read %s", s, z.Text('g', 40), bf.Text('g', 40)), "")
	}
}

// c12RangeBinary: binary ('p') exponents around and far beyond the int32 / int64 limits. math/big rejects a binary
// exponent that leaves the int32 range once the radix point is accounted for ("exponent overflow"); the statement asks
// for the same accepted set and for rejection of exponents outside the int32 range. The two formats normalize their
// mantissas differently, so within a few bits per digit of the limits the verdict is not judged; beyond that band the
// literal must be rejected, below it accepted - and an accepted one is inexact (2^k is never a power of ten) and
// saturates with the accuracy of an overflow / underflow.
func c12RangeBinary(c *hx.Ctx, r *hx.RNG) {
	if r.Chance(12) {
		c12RangeMixed(c, r)
		return
	}
	two := big.NewInt(2)
	anchors := []*big.Int{
		new(big.Int).Exp(two, big.NewInt(31), nil), new(big.Int).Exp(two, big.NewInt(31), nil), new(big.Int).Exp(two, big.NewInt(32), nil),
		new(big.Int).Exp(two, big.NewInt(63), nil), new(big.Int).Exp(two, big.NewInt(64), nil),
		big.NewInt(7200000000), hx.CoefOf(r.Digits(r.Range(10, 30))),
	}
	e := new(big.Int).Set(anchors[r.Intn(len(anchors))])
	e.Add(e, big.NewInt(int64(r.Range(-600, 600))))
	if r.Chance(30) {
		e.Add(e, big.NewInt(int64(r.Range(-3000000, 3000000))))
	}
	if r.Bool() {
		e.Neg(e)
	}
	pre, alpha, bits := "", "0123456789", int64(0)
	switch r.Intn(4) {
	case 0:
		pre, alpha, bits = []string{"0x", "0X"}[r.Intn(2)], "0123456789abcdefABCDEF", 4
	case 1:
		pre, alpha, bits = []string{"0b", "0B"}[r.Intn(2)], "01", 1
	case 2:
		pre, alpha, bits = []string{"0o", "0O"}[r.Intn(2)], "01234567", 3
	}
	nd := r.Range(1, 30)
	ds := make([]byte, nd)
	for i := range ds {
		ds[i] = alpha[r.Intn(len(alpha))]
	}
	zero := r.Chance(8)
	if zero {
		ds = []byte(strings.Repeat("0", nd))
	} else if strings.Trim(string(ds), "0") == "" {
		ds[0] = '1'
	}
	k := nd
	hasPoint := pre != "" && r.Bool() || pre == "" && r.Chance(30)
	if hasPoint {
		k = r.Intn(nd + 1)
	}
	var b strings.Builder
	neg := r.Bool()
	if neg {
		b.WriteByte('-')
	}
	b.WriteString(pre)
	b.Write(ds[:k])
	if hasPoint {
		b.WriteByte('.')
		b.Write(ds[k:])
	}
	b.WriteByte("pP"[r.Intn(2)])
	es := e.String()
	if r.Chance(20) && e.Sign() >= 0 {
		es = "+" + es
	}
	b.WriteString(es)
	text := b.String()
	what := fmt.Sprintf("Parse(%q, 0)", text)
	c.Note(what)
	if c.Verbose {
		fmt.Println("case:", what)
	}
	// verdict: exp2 = e - (fractional digits x bits per digit); the unjudged band is 4 bits per digit wide plus a little
	exp2 := new(big.Int).Sub(e, big.NewInt(int64(nd-k)*bits))
	margin := big.NewInt(int64(4*nd + 80))
	lim := big.NewInt(1 << 31)
	abs := new(big.Int).Abs(exp2)
	verdict := "unjudged"
	switch {
	case zero:
		if e.IsInt64() {
			verdict = "accept"
		} else {
			verdict = "reject"
		}
	case abs.Cmp(new(big.Int).Add(lim, margin)) > 0:
		verdict = "reject"
	case abs.Cmp(new(big.Int).Sub(lim, margin)) < 0:
		verdict = "accept"
	}
	mode := r.Mode()
	p := int64(r.Range(1, 45))
	z := usedRecv(r, p, mode)
	var res *decimal.Decimal
	var err error
	pi := hx.Try(func() { res, _, err = z.Parse(text, 0) })
	c.Eval(hx.HashStr(what), true, "range-binary/"+verdict)
	if c.WantSample("range-binary/" + verdict) {
		c.Sample("range-binary/"+verdict, what)
	}
	if pi != nil {
		c.Violate("panic", fmt.Sprintf("%s: %s panic %q at %s", what, pi.Class, pi.Text, pi.Stack), "")
		return
	}
	if err != nil && res != nil {
		c.Violate("non-nil-result-with-error", what, "")
		return
	}
	if verdict == "reject" && err == nil {
		c.Violate("exponent-range", fmt.Sprintf("%s: accepted (stored %s), but the binary exponent %s lies outside the int32 range: math/big reports an exponent overflow", what, hx.Snapshot(res), exp2), "")
		return
	}
	if verdict == "accept" && err != nil {
		c.Violate("exponent-range", fmt.Sprintf("%s: rejected (%v), but the binary exponent %s lies within the int32 range", what, err, exp2), "")
		return
	}
	if err != nil {
		return
	}
	got := hx.Snapshot(res)
	if msg := hx.Canonical(res); msg != "" {
		c.Violate("not-canonical", what+": "+msg, "")
		return
	}
	if zero {
		if got.V.Form != oracle.Zero || got.V.Neg != neg {
			c.Violate("wrong-value", fmt.Sprintf("%s: stored %s, want a zero", what, got), "")
		}
		return
	}
	if got.V.Neg != neg {
		c.Violate("wrong-value", fmt.Sprintf("%s: stored %s: wrong sign", what, got), "")
		return
	}
	if abs.Cmp(big.NewInt(400)) > 0 {
		// m x 2^exp2 with |exp2| > 400 has hundreds of significant digits: never exact at these precisions
		wantAcc := 0
		switch got.V.Form {
		case oracle.Inf:
			wantAcc = map[bool]int{false: 1, true: -1}[neg]
			if exp2.Sign() < 0 {
				c.Violate("wrong-value", fmt.Sprintf("%s: stored %s for a value below 1", what, got), "")
				return
			}
		case oracle.Zero:
			wantAcc = map[bool]int{false: -1, true: 1}[neg]
			if exp2.Sign() > 0 {
				c.Violate("wrong-value", fmt.Sprintf("%s: stored %s for a value above 1", what, got), "")
				return
			}
		}
		if got.Acc == 0 || (wantAcc != 0 && got.Acc != wantAcc) {
			c.Violate("wrong-acc", fmt.Sprintf("%s: stored %s with Acc()=%d: the value is not representable exactly", what, got, got.Acc), "")
		}
	}
}

// c12RangeMixed: a binary or octal mantissa with a fraction and a *decimal* exponent at the ends of the range
// ("0b1001.1e2147483646" = 9.5e2147483646). The value m x 2^-f x 10^e = (m x 5^f) x 10^(e-f) is an exact decimal: the
// literal must be accepted when that value's leading digit lies in the range, and stored correctly rounded.
func c12RangeMixed(c *hx.Ctx, r *hx.RNG) {
	pre, alpha, bits := "0b", "01", int64(1)
	if r.Bool() {
		pre, alpha, bits = "0o", "01234567", 3
	}
	nd := r.Range(2, 24)
	ds := make([]byte, nd)
	for i := range ds {
		ds[i] = alpha[r.Intn(len(alpha))]
	}
	if ds[0] == '0' {
		ds[0] = '1'
	}
	sparse := r.Chance(20)
	if sparse {
		// 1.000...0001: a power of ten plus a little (a unit dozens of binary places down) - next to a decade, hence, at
		// the top of the range, next to the range's end, on either side of it after rounding
		nd = r.Range(20, 110)
		ds = bytes.Repeat([]byte{'0'}, nd)
		ds[0], ds[nd-1] = '1', alpha[1+r.Intn(len(alpha)-1)]
	}
	k := r.Intn(nd) // at least one fractional digit
	if sparse {
		k = 1
	}
	m, _ := new(big.Int).SetString(string(ds), int(1<<uint(bits)))
	f := int64(nd-k) * bits
	nines := r.Chance(30)
	if nines {
		// aim the value at a run of nines (m x 5^f = 99...9xxx): a rounding to few digits carries into the next decade,
		// out of the range when the value sits in the top one
		f = int64(r.Range(1, 4)) * bits
		t := new(big.Int).Sub(oracle.Pow10(int64(r.Range(1, 10))), big.NewInt(1))
		t.Mul(t, oracle.Pow10(int64(r.Range(10, 15))))
		m = t.Quo(t, new(big.Int).Exp(big.NewInt(5), big.NewInt(f), nil))
		txt := m.Text(int(1 << uint(bits)))
		nfd := int(f / bits)
		for len(txt) <= nfd {
			txt = "0" + txt
		}
		ds, k = []byte(txt), len(txt)-nfd
		nd = len(ds)
	}
	coef := new(big.Int).Mul(m, new(big.Int).Exp(big.NewInt(5), big.NewInt(f), nil))
	// aim the exponent so that the value's leading digit lands within a few places of a range end
	end := []int64{oracle.MaxExp, oracle.MinExp}[r.Intn(2)]
	e := end - oracle.Digits(coef) + f + int64(r.Range(-12, 12))
	if sparse {
		e = end + int64(r.Range(-2, 1)) // the value is 1.00..0x times 10^e
	}
	neg := r.Bool()
	text := map[bool]string{true: "-", false: ""}[neg] + pre + string(ds[:k]) + "." + string(ds[k:]) + "e" + strconv.FormatInt(e, 10)
	what := fmt.Sprintf("Parse(%q, 0)", text)
	c.Note(what)
	if c.Verbose {
		fmt.Println("case:", what)
	}
	lead := oracle.Digits(coef) + e - f
	inRange := lead >= oracle.MinExp && lead <= oracle.MaxExp
	mode := r.Mode()
	p := int64(r.Range(1, 45))
	if nines {
		p = int64(r.Range(1, 8))
	}
	if sparse {
		p = int64(r.Range(1, 60))
	}
	z := usedRecv(r, p, mode)
	var res *decimal.Decimal
	var err error
	pi := hx.Try(func() { res, _, err = z.Parse(text, 0) })
	cls := "range-mixed/value-out-of-range"
	if inRange {
		cls = "range-mixed/value-in-range"
	}
	c.Eval(hx.HashStr(what), true, cls)
	if c.WantSample(cls) {
		c.Sample(cls, what)
	}
	if pi != nil {
		c.Violate("panic", fmt.Sprintf("%s: %s panic %q at %s", what, pi.Class, pi.Text, pi.Stack), "")
		return
	}
	if err != nil && res != nil {
		c.Violate("non-nil-result-with-error", what, "")
		return
	}
	if !inRange {
		// below the range: rejected or flushed to zero, both are defensible for a value the type cannot hold. Above it the
		// statement is explicit - an exponent outside the int32 range is rejected - and the decimal spellings of the same
		// values are ("10e2147483647", "0b1.1e2147483647"): only a value inside the range whose *rounding* carries out of
		// it becomes an infinity.
		if lead > oracle.MaxExp && err == nil {
			c.Violate("exponent-range", fmt.Sprintf("%s: accepted as %s although the value %se%d lies above the exponent range", what, hx.Snapshot(res), coef, e-f), "")
		}
		return
	}
	if err != nil {
		kf := ""
		if oracle.Digits(m)+e > oracle.MaxExp {
			kf = "binary_mantissa_decimal_exponent_intermediate_overflow" // D35: the integer mantissa m x 10^e is range-checked before the division by 2^f
		}
		c.Violate("exponent-range", fmt.Sprintf("%s: rejected (%v) although the value %se%d is representable", what, err, coef, e-f), kf)
		return
	}
	o := oracle.Outcome{Ex: oracle.ExDec{Neg: neg, Coef: coef, Exp: e - f}}
	got := hx.Snapshot(res)
	if valueVerdict(c, what, o, got, p, mode, "") {
		if _, am := o.Check(got.V, got.Acc, p, mode); am != "" {
			c.Violate("wrong-acc", what+": "+am, "")
		}
	}
}
