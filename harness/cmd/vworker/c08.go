package main

import (
	"fmt"

	"github.com/db47h/decimal"

	"verifharness/hx"
)

// C08 — every reachable Decimal is canonical: the invariant walker visits all
// variables after every step of random programs.

func init() {
	engines["C08"] = &engine{N: tierN(3200, 200000), Case: c08Case}
}

func stripLow(w []decimal.Word) []decimal.Word {
	i := 0
	for i < len(w) && w[i] == 0 {
		i++
	}
	return w[i:]
}

func c08Case(c *hx.Ctx, r *hx.RNG, idx int64) {
	steps := 60
	if c.Tier == "thorough" {
		steps = 100
	}
	vm := newProgVM(r, c.Tier)
	vm.mutatedGob = true
	vm.note = c.Note
	var trace []string
	for i := 0; i < steps; i++ {
		st := vm.step()
		if st.skipped {
			c.Skip()
			continue
		}
		d := st.describe()
		if c.Verbose {
			fmt.Printf("step %d: %s %s -> %v\n", i, d, st.aux, st.post)
		}
		trace = append(trace, d)
		if len(trace) > 12 {
			trace = trace[1:]
		}
		cls := "op/" + opFamily(st.op)
		c.Eval(r.U64(), true, cls)
		if st.pi != nil {
			switch {
			case st.pi.Class == "mk" || st.pi.Class == "cost":
				panic(st.pi.Val)
			case st.pi.IsNaN && st.nanOK:
				c.Count("ErrNaN_panics", 1)
			case st.pi.IsNaN:
				c.Violate("unexpected-ErrNaN", fmt.Sprintf("step %d %s: ErrNaN %q on operands %v; last steps: %v", i, d, st.pi.Text, operandStates(st), trace), st.kf)
			default:
				c.Violate("panic", fmt.Sprintf("step %d %s: %s panic %q at %s; operands %v; last steps: %v", i, d, st.pi.Class, st.pi.Text, st.pi.Stack, operandStates(st), trace), "")
				return
			}
		}
		// walk every variable (aliasing bugs damage operands, not receivers)
		for vi, v := range vm.vars {
			if msg := hx.Canonical(v); msg != "" {
				c.Violate("not-canonical", fmt.Sprintf("after step %d %s: variable v%d = %s: %s; last steps: %v", i, d, vi, st.post[vi], msg, trace), "")
				return
			}
			c.Count("walker_visits", 1)
			if st.post[vi].Class == 0 {
				c.Count("walker_zero", 1)
			} else if st.post[vi].Class == 2 {
				c.Count("walker_inf", 1)
			}
		}
		if vm.sharedStorage() != "" {
			c.Count("shared_storage_probed", 1)
			if msg := vm.probeSharing(); msg != "" {
				c.Violate("operand-modified", fmt.Sprintf("after step %d %s: %s; last steps: %v", i, d, msg, trace), "")
				return
			}
		}
		c.Count("storage_ownership_checks", 1)
		// numerically equal values expose identical digits and exponent
		if st.z >= 0 && st.post[st.z].Class == 1 {
			a := st.post[st.z]
			for vi := range vm.vars {
				b := st.post[vi]
				if vi == st.z || b.Class != 1 {
					continue
				}
				cmp := vm.vars[st.z].Cmp(vm.vars[vi])
				same := a.Neg == b.Neg && a.Exp == b.Exp && eqWords(stripLow(a.W), stripLow(b.W))
				if same {
					c.Count("equal_value_pairs", 1)
				}
				if (cmp == 0) != same {
					c.Violate("equal-values-differ", fmt.Sprintf("after step %d %s: v%d=%s and v%d=%s: Cmp=%d but representation-equal=%v", i, d, st.z, a, vi, b, cmp, same), "")
					return
				}
			}
		}
	}
	if c.WantSample("program") {
		c.Sample("program", fmt.Sprintf("last steps of program %d: %v", idx, trace))
	}
}

func operandStates(st *progStep) []string {
	var out []string
	for _, a := range st.args {
		s := st.pre[a].String()
		if len(s) > 200 {
			s = s[:200] + "..."
		}
		out = append(out, s)
	}
	return out
}

func opFamily(op string) string {
	for i := 0; i < len(op); i++ {
		if op[i] == '(' {
			return op[:i]
		}
	}
	return op
}
