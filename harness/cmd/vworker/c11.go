package main

import (
	"encoding/json"
	"fmt"
	"math/big"
	"strings"

	"github.com/db47h/decimal"

	"verifharness/hx"
	"verifharness/oracle"
)

// C11 — text output parses back to exactly the same Decimal; with precision -1
// the output carries exactly MinPrec significant digits.

func init() {
	engines["C11"] = &engine{N: tierN(110000, 5000000), Case: c11Case}
}

// sigDigits extracts the significant digits of a number text: mantissa part, radix point removed, leading and trailing zeros stripped.
func sigDigits(s string) string {
	s = strings.TrimLeft(s, "+-")
	if i := strings.IndexAny(s, "eE"); i >= 0 {
		s = s[:i]
	}
	s = strings.Replace(s, ".", "", 1)
	s = strings.TrimLeft(s, "0")
	return strings.TrimRight(s, "0")
}

// c11Long: one mantissa of 66 000 .. 72 000 words (about 1.3 million digits) per run, built from words, printed with
// e, g or MarshalText and read back: a conversion may treat mantissas beyond 2^16 words differently (chunks, workers).
func c11Long(c *hx.Ctx, r *hx.RNG) {
	n := r.Range(66000, 72000)
	w := make([]decimal.Word, n)
	var sb strings.Builder
	for i := range w {
		w[i] = decimal.Word(r.U64() % wb)
	}
	w[n-1] = decimal.Word(wb/10 + r.U64()%(wb-wb/10))
	w[0] = decimal.Word(1 + r.U64()%(wb-1)) // (no trailing zero word)
	for i := n - 1; i >= 0; i-- {
		fmt.Fprintf(&sb, "%019d", uint64(w[i]))
	}
	ds := strings.TrimRight(sb.String(), "0")
	x := new(decimal.Decimal).SetPrec(uint(19*n)).SetBitsExp(append([]decimal.Word(nil), w...), int64(r.Range(-50, 50)))
	if r.Bool() {
		x.Neg(x)
	}
	ft := []string{"e", "g", "MarshalText"}[r.Intn(3)]
	what := fmt.Sprintf("%s of a value of %d mantissa words (%d digits, first word %d, last word %d)", ft, n, len(ds), uint64(w[n-1]), uint64(w[0]))
	c.Note(what)
	var text string
	pi := hx.Try(func() {
		if ft == "MarshalText" {
			b, _ := x.MarshalText()
			text = string(b)
		} else {
			text = x.Text(ft[0], -1)
		}
	})
	c.Eval(hx.HashStr(what), true, "format/"+ft+"/more-than-2^16-words")
	if pi != nil {
		c.Violate("panic", fmt.Sprintf("%s: %s panic %q at %s", what, pi.Class, pi.Text, pi.Stack), "")
		return
	}
	if got := sigDigits(text); got != ds {
		i := 0
		for i < len(got) && i < len(ds) && got[i] == ds[i] {
			i++
		}
		c.Violate("digits-differ", fmt.Sprintf("%s: the text (%d bytes, starts %q) carries %d significant digits, x has %d; they agree on the first %d", what, len(text), trunc120(text), len(got), len(ds), i), "")
		return
	}
	z := new(decimal.Decimal).SetPrec(x.MinPrec())
	var ok bool
	if pi := hx.Try(func() { _, ok = z.SetString(text) }); pi != nil {
		c.Violate("panic", fmt.Sprintf("%s: parsing the text back: %s panic %q", what, pi.Class, pi.Text), "")
		return
	}
	c.Count("round_trips", 1)
	if !ok || z.Cmp(x) != 0 || z.Signbit() != x.Signbit() {
		c.Violate("round-trip-differs", fmt.Sprintf("%s: the text (starts %q) reads back (ok=%v) as a different value", what, trunc120(text), ok), "")
	}
}

// c11LongF: f format (also e, g) of a value with an integer part of exactly `intDigits` digits and a short fraction - every
// length in a window around 2^16 and 2^17 digits is visited once per run: a conversion that works in blocks of about
// 64 KiB has its seams there, and the radix point may fall exactly on one.
func c11LongF(c *hx.Ctx, r *hx.RNG, intDigits int) {
	fd := r.Range(1, 40)
	ds := r.Digits(intDigits + fd)
	if ds[len(ds)-1] == '0' {
		ds[len(ds)-1] = '7'
	}
	v := oracle.Val{Form: oracle.Finite, Neg: r.Bool(), Coef: hx.CoefOf(ds), Exp: -int64(fd)}
	x := hx.Mk(v, uint(len(ds)+r.Intn(3)*r.Intn(40)), r.Mode())
	ft := []string{"f", "f", "f", "e", "g"}[r.Intn(5)]
	what := fmt.Sprintf("%s of a value with %d integer and %d fractional digits (starts %.30s)", ft, intDigits, fd, ds)
	c.Note(what)
	var text string
	pi := hx.Try(func() { text = x.Text(ft[0], -1) })
	c.Eval(hx.HashStr(what), true, "format/"+ft+"/integer-part-around-2^16-digits")
	if pi != nil {
		c.Violate("panic", fmt.Sprintf("%s: %s panic %q at %s", what, pi.Class, pi.Text, pi.Stack), "")
		return
	}
	if got, want := sigDigits(text), strings.TrimRight(string(ds), "0"); got != want {
		c.Violate("digits-differ", fmt.Sprintf("%s: the text (%d bytes) carries %d significant digits, x has %d", what, len(text), len(got), len(want)), "")
		return
	}
	if ft == "f" {
		if i := strings.IndexByte(text, '.'); i < 0 || len(strings.TrimLeft(text[:i], "-")) != intDigits {
			c.Violate("round-trip-differs", fmt.Sprintf("%s: the radix point is at byte %d of %d (want %d integer digits in front of it)", what, i, len(text), intDigits), "")
			return
		}
	}
	z := new(decimal.Decimal).SetPrec(x.MinPrec() + uint(r.Intn(2)))
	_, ok := z.SetString(text)
	c.Count("round_trips", 1)
	if !ok || z.Cmp(x) != 0 || z.Signbit() != x.Signbit() {
		c.Violate("round-trip-differs", fmt.Sprintf("%s: the text reads back (ok=%v) as a different value", what, ok), "")
	}
}

func c11Case(c *hx.Ctx, r *hx.RNG, idx int64) {
	if idx%4000000 == 23 {
		c11Long(c, r)
		releaseHuge()
		return
	}
	switch m := idx % 1000000; {
	case m >= 1000 && m < 1140:
		c11LongF(c, r, 65536-70+int(m-1000))
		return
	case m >= 1200 && m < 1340:
		c11LongF(c, r, 131072-100+int(m-1200))
		return
	}
	var v oracle.Val
	cls := "finite"
	switch k := r.Intn(100); {
	case k < 4:
		v, cls = oracle.Val{Form: oracle.Zero, Neg: r.Bool()}, "zero"
	case k < 8:
		v, cls = oracle.Val{Form: oracle.Inf, Neg: r.Bool()}, "inf"
	default:
		l := hx.LimitsFor(c.Tier)
		n := r.Len(l)
		if n > 3000 {
			n = 3000
		}
		v = r.Finite(n, r.LeadExp())
		if r.Chance(30) { // interior zero words
			d := []byte(v.Coef.String())
			for i := r.Intn(len(d)); i < len(d) && r.Chance(97); i++ {
				d[i] = '0'
			}
			if d[0] == '0' {
				d[0] = '7'
			}
			v.Coef = hx.CoefOf(d)
		}
	}
	x, route := mkVia(r, inRange(v))
	v = hx.Read(x)
	ds, dp := digitsOfVal(v)
	moderate := v.Form != oracle.Finite || (dp > -5000 && dp < 5000)
	formats := []string{"e", "E", "g", "G", "p", "b", "MarshalText", "JSON"}
	if moderate {
		formats = append(formats, "f")
	}
	ft := formats[r.Intn(len(formats))]
	if ft == "b" && x.Prec() > 1<<20 {
		// 'b' prints the mantissa padded to the precision: billions of digits at a precision from the top of the range
		x.SetPrec(uint(len(ds)) + uint(r.Intn(40)))
		route += "(precision lowered for 'b')"
	}
	what := fmt.Sprintf("%s of %s (prec %d, route %s)", ft, v.Full(), x.Prec(), route)
	c.Note(what)
	if c.Verbose {
		fmt.Println("case:", what)
	}
	pre, preRaw := hx.Snapshot(x), hx.RawOf(x)
	var text string
	pi := hx.Try(func() {
		switch ft {
		case "MarshalText":
			b, err := x.MarshalText()
			if err != nil {
				panic("MarshalText error: " + err.Error())
			}
			text = string(b)
			// the returned slice is the caller's: recycling it (here: overwriting it up to its capacity) must not
			// change what the next call returns
			b = b[:cap(b)]
			for i := range b {
				b[i] = 'X'
			}
			if b2, _ := x.MarshalText(); string(b2) != text {
				panic(fmt.Sprintf("MarshalText returned %q, and %q after the first result had been overwritten by its owner", trunc120(text), trunc120(string(b2))))
			}
		case "JSON":
			b, err := json.Marshal(x)
			if err != nil {
				panic("json.Marshal error: " + err.Error())
			}
			text = string(b)
		case "b":
			text = x.Text('b', 0)
		default:
			if r.Bool() {
				text = x.Text(ft[0], -1)
			} else {
				// into a caller's buffer with spare capacity, then without the prefix
				pre := make([]byte, 3, 3+[]int{0, 5, 30, 200, 3000}[r.Intn(5)])
				copy(pre, "|> ")
				out := x.Append(pre, ft[0], -1)
				if len(out) < 3 || string(out[:3]) != "|> " {
					panic(fmt.Sprintf("Append overwrote the caller's prefix: %q", trunc120(string(out))))
				}
				text = string(out[3:])
			}
		}
	})
	c.Eval(hx.HashStr(what), cls == "finite", "format/"+ft+"/"+cls)
	c.Classes["route/"+route]++
	if c.WantSample("format/" + ft + "/" + cls) {
		c.Sample("format/"+ft+"/"+cls, what+" = "+trunc120(text))
	}
	if pi != nil {
		c.Violate("panic", fmt.Sprintf("%s: %s panic %q at %s", what, pi.Class, pi.Text, pi.Stack), "")
		return
	}
	if !hx.SameState(pre, hx.Snapshot(x)) || !preRaw.Identical(hx.RawOf(x)) {
		c.Violate("operand-modified", what+": formatting changed x", "")
		return
	}
	// no digit dropped, none invented (not for 'b', which pads to Prec digits by definition, nor for JSON's quotes)
	if v.Form == oracle.Finite && ft != "JSON" {
		got := sigDigits(text)
		if got != ds {
			c.Violate("digits-differ", fmt.Sprintf("%s: text %q carries digits %q, x has %q", what, trunc120(text), trunc120(got), trunc120(ds)), "")
			return
		}
		if int64(len(got)) != int64(x.MinPrec()) {
			c.Violate("digit-count", fmt.Sprintf("%s: %d significant digits in the text, MinPrec is %d", what, len(got), x.MinPrec()), "")
			return
		}
	}
	// parse back into receivers of precision max(1, MinPrec), +1, +40
	mp := x.MinPrec()
	if mp < 1 {
		mp = 1
	}
	for _, extra := range []uint{0, 1, 40} {
		z := new(decimal.Decimal).SetPrec(mp + extra).SetMode(decimal.RoundingMode(r.Mode()))
		if r.Bool() {
			z.SetInt64(99)
		}
		var err error
		ppi := hx.Try(func() {
			switch ft {
			case "JSON":
				err = json.Unmarshal([]byte(text), z)
			case "MarshalText":
				err = z.UnmarshalText([]byte(text))
			default:
				if r.Bool() {
					_, _, err = z.Parse(text, 10)
				} else {
					var ok bool
					_, ok = z.SetString(text)
					if !ok {
						err = fmt.Errorf("SetString failed")
					}
				}
			}
		})
		if ppi != nil {
			c.Violate("panic", fmt.Sprintf("%s: parsing %q back: %s panic %q", what, trunc120(text), ppi.Class, ppi.Text), "")
			return
		}
		if err != nil {
			c.Violate("does-not-parse-back", fmt.Sprintf("%s: %q is rejected: %v", what, trunc120(text), err), "")
			return
		}
		back := hx.Read(z)
		c.Count("round_trips", 1)
		if !oracle.Equal(back, v) {
			c.Violate("round-trip-differs", fmt.Sprintf("%s: %q parses back (precision %d) to %s", what, trunc120(text), mp+extra, back.Full()), "")
			return
		}
		if z.Cmp(x) != 0 || z.Signbit() != x.Signbit() {
			c.Violate("round-trip-differs", fmt.Sprintf("%s: parsed-back value does not compare equal / differs in sign", what), "")
			return
		}
	}
	// A second formatting after x was updated in place must show the new value: one unit is added at the lowest digit of
	// an interior mantissa word (same array, same length, same lowest and highest word), and the text is read back.
	if raw := hx.RawOf(x); v.Form == oracle.Finite && len(raw.W) >= 3 && (ft == "e" || ft == "E" || ft == "g" || ft == "G" || ft == "p" || ft == "MarshalText") {
		wi := 1 + r.Intn(len(raw.W)-2)
		unit := oracle.Val{Form: oracle.Finite, Neg: v.Neg, Coef: big.NewInt(int64(r.Range(1, 9))), Exp: int64(raw.Exp) - 19*int64(len(raw.W)-wi)}
		if unit.LeadExp() >= oracle.MinExp {
			x.Add(x, hx.Mk(unit, 1, 0))
			nv := hx.Read(x)
			var text2 string
			if pi := hx.Try(func() {
				if ft == "MarshalText" {
					b, _ := x.MarshalText()
					text2 = string(b)
				} else {
					text2 = x.Text(ft[0], -1)
				}
			}); pi != nil {
				c.Violate("panic", fmt.Sprintf("%s, second formatting after an in-place update: %s panic %q", what, pi.Class, pi.Text), "")
				return
			}
			z := new(decimal.Decimal).SetPrec(x.Prec())
			if _, ok := z.SetString(text2); !ok || !oracle.Equal(hx.Read(z), nv) {
				c.Violate("round-trip-differs", fmt.Sprintf("%s: after adding %s to x in place, the same formatting gives %q, which does not read back as the new value %s", what, unit.Full(), trunc120(text2), nv.Full()), "")
				return
			}
			c.Count("second_formatting_after_in_place_update", 1)
		}
	}
}
