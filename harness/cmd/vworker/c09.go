package main

import (
	"fmt"
	"strings"

	"verifharness/hx"
)

// C09 — precision and rounding mode are sticky; operands are never modified.
// A wrapper at the client boundary snapshots every variable before each call
// of a random program and compares afterwards.

func init() {
	engines["C09"] = &engine{N: tierN(3400, 100000), Case: c09Case}
}

func c09Case(c *hx.Ctx, r *hx.RNG, idx int64) {
	steps := 60
	if c.Tier == "thorough" {
		steps = 100
	}
	vm := newProgVM(r, c.Tier)
	vm.note = c.Note
	var trace []string
	for i := 0; i < steps; i++ {
		st := vm.step()
		if st.skipped {
			c.Skip()
			continue
		}
		d := st.describe()
		trace = append(trace, d)
		if len(trace) > 10 {
			trace = trace[1:]
		}
		if c.Verbose {
			fmt.Printf("step %d: %s %s\n   pre  %v\n   post %v\n", i, d, st.aux, st.pre, st.post)
		}
		fam := opFamily(st.op)
		zp := "n/a"
		if st.z >= 0 {
			zp = "prec>0"
			if st.pre[st.z].Prec == 0 {
				zp = "prec=0"
			}
		}
		c.Eval(r.U64(), st.z >= 0, "op/"+fam+"/"+zp)
		if st.pi != nil {
			if st.pi.Class == "mk" || st.pi.Class == "cost" {
				panic(st.pi.Val)
			}
			if !(st.pi.IsNaN && st.nanOK) {
				kf := ""
				if st.pi.IsNaN {
					kf = st.kf // (the ErrNaN of Inf - Inf that D15's saturated product provokes; no other panic is that finding)
				}
				c.Violate("panic", fmt.Sprintf("step %d %s: %s panic %q at %s; last steps: %v", i, d, st.pi.Class, st.pi.Text, st.pi.Stack, trace), kf)
				return
			}
		}
		// operands that are not the receiver keep value, sign, precision, mode and accuracy
		for vi := range vm.vars {
			w := false
			for _, x := range st.writes {
				if x == vi {
					w = true
				}
			}
			if w {
				continue
			}
			c.Count("operand_snapshots_compared", 1)
			if !st.pre[vi].Identical(st.post[vi]) {
				c.Violate("operand-modified", fmt.Sprintf("step %d %s: variable v%d changed from %s to %s", i, d, vi, st.pre[vi], st.post[vi])+expFields(st.pre[vi], st.post[vi]), "")
				return
			}
		}
		if st.argCheck != nil {
			if msg := st.argCheck(); msg != "" {
				c.Violate("argument-modified", fmt.Sprintf("step %d %s: %s", i, d, msg), "")
			}
		}
		if st.z < 0 {
			continue
		}
		if st.pi != nil || st.failed {
			// after an ErrNaN panic or a reported error the receiver's *value* is undefined; its attributes are not:
			// a precision that was set and the rounding mode survive (an operation that fails must not leave the
			// receiver rounding differently from then on)
			pre, post := st.pre[st.z], st.post[st.z]
			c.Count("receiver_attributes_checked_after_an_error", 1)
			if st.modeRule != "any" && post.Mode != pre.Mode {
				c.Violate("mode-changed", fmt.Sprintf("step %d %s failed (%s) and left the receiver's mode %d changed to %d; operands %v", i, d, st.aux, pre.Mode, post.Mode, operandStates(st)), "")
			}
			if st.modeRule != "any" && pre.Prec != 0 && post.Prec != pre.Prec {
				c.Violate("precision-rule", fmt.Sprintf("step %d %s failed (%s) and left the receiver's precision %d changed to %d; operands %v", i, d, st.aux, pre.Prec, post.Prec, operandStates(st)), "")
			}
			continue
		}
		pre, post := st.pre[st.z], st.post[st.z]
		switch {
		case st.modeRule == "keep":
			if post.Mode != pre.Mode {
				c.Violate("mode-changed", fmt.Sprintf("step %d %s: receiver mode %d became %d; operands %v", i, d, pre.Mode, post.Mode, operandStates(st)), "")
			}
		case strings.HasPrefix(st.modeRule, "copy:"):
			var want int
			fmt.Sscanf(st.modeRule, "copy:%d", &want)
			if post.Mode != want {
				c.Violate("mode-not-copied", fmt.Sprintf("step %d %s: receiver mode is %d, documented to become %d", i, d, post.Mode, want), "")
			}
		case st.modeRule == "gob":
			want := pre.Mode
			if pre.Prec == 0 {
				want = st.pre[st.args[0]].Mode
			}
			if post.Mode != want {
				c.Violate("mode-changed", fmt.Sprintf("step %d %s: receiver (precision %d before) has mode %d, want %d", i, d, pre.Prec, post.Mode, want), "")
			}
		}
		if msg := st.precRule(pre, post.Prec); msg != "" {
			c.Violate("precision-rule", fmt.Sprintf("step %d %s: %s; receiver before %s, operands %v", i, d, msg, pre, operandStates(st)), "")
		}
	}
	if c.WantSample("program") {
		c.Sample("program", fmt.Sprintf("last steps of program %d: %v", idx, trace))
	}
}
