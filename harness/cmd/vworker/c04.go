package main

import (
	"bytes"
	"encoding/gob"
	"encoding/json"
	"fmt"
	"math"
	"math/big"

	"github.com/db47h/decimal"

	"verifharness/hx"
	"verifharness/oracle"
)

// C04 — IEEE-754 special cases for every operand class; exactly the invalid
// operations panic with ErrNaN (receiver left valid); nothing else ever panics.

const (
	c04Recv  = 3                            // receiver state: fresh | stale inexact result | stale negative zero
	c04Bin   = 4 * 36 * 6 * 4 * 2 * c04Recv // op x classes x mode x magnitude x (distinct | z=x) x receiver state
	c04FMA   = 216 * 6 * 4 * c04Recv
	c04Sqrt  = 6 * 6 * 3 * 2 * c04Recv
	c04Table = c04Bin + c04FMA + c04Sqrt
)

func init() {
	engines["C04"] = &engine{
		N:     func(t string) int64 { return c04Table + tierN(60000, 2000000)(t) },
		Setup: selfTest,
		Case:  c04Case,
	}
}

var classNames = []string{"-Inf", "-fin", "-0", "+0", "+fin", "+Inf"}

// classVal returns a value of class c; finite magnitudes come in sizes 0 (one word),
// 1 (three words), 2 (120 words: Karatsuba and recursive division territory).
func classVal(r *hx.RNG, c int, size int) oracle.Val {
	switch c {
	case 0:
		return oracle.Val{Form: oracle.Inf, Neg: true}
	case 5:
		return oracle.Val{Form: oracle.Inf}
	case 2:
		return oracle.Val{Form: oracle.Zero, Neg: true}
	case 3:
		return oracle.Val{Form: oracle.Zero}
	}
	n := []int{r.Range(1, 19), r.Range(39, 57), r.Range(2262, 2280)}[size]
	v := r.Finite(n, int64(r.Range(-30, 30)))
	v.Neg = c == 1
	return v
}

func f64Of(c int, mag float64) float64 {
	switch c {
	case 0:
		return math.Inf(-1)
	case 1:
		return -mag
	case 2:
		return math.Copysign(0, -1)
	case 3:
		return 0
	case 4:
		return mag
	}
	return math.Inf(1)
}

// hwClass classifies a float64 result: "NaN", "+Inf", "-0", "+fin", ...
func hwClass(f float64) string {
	switch {
	case math.IsNaN(f):
		return "NaN"
	case math.IsInf(f, 1):
		return "+Inf"
	case math.IsInf(f, -1):
		return "-Inf"
	case f == 0 && math.Signbit(f):
		return "-0"
	case f == 0:
		return "+0"
	case f < 0:
		return "-fin"
	}
	return "+fin"
}

func valClass(v oracle.Val) string {
	s := "+"
	if v.Neg {
		s = "-"
	}
	switch v.Form {
	case oracle.Zero:
		return s + "0"
	case oracle.Inf:
		return s + "Inf"
	}
	return s + "fin"
}

func c04Case(c *hx.Ctx, r *hx.RNG, idx int64) {
	if idx < c04Table {
		c04Cell(c, r, idx)
		return
	}
	c04Hunt(c, r)
}

// c04Cell checks one cell of the exhaustively enumerated class table.
func c04Cell(c *hx.Ctx, r *hx.RNG, idx int64) {
	k := &opCase{}
	recvState := []int{0, 1, 4}[idx%c04Recv]
	full := idx
	idx /= c04Recv
	_ = full
	var hw float64
	part := partitions4[0]
	equalMag := false
	switch {
	case idx < c04Bin/c04Recv:
		i := idx
		alias := int(i % 2)
		i /= 2
		mag := int(i % 4)
		i /= 4
		k.mode = int(i % 6)
		i /= 6
		cy := int(i % 6)
		i /= 6
		cx := int(i % 6)
		i /= 6
		k.op = []string{"Add", "Sub", "Mul", "Quo"}[i]
		size := mag
		if mag == 3 {
			size, equalMag = 0, true
		}
		k.x, k.y = classVal(r, cx, size), classVal(r, cy, size)
		fx, fy := f64Of(cx, 3), f64Of(cy, 5)
		if equalMag && k.x.Form == oracle.Finite && k.y.Form == oracle.Finite {
			k.y.Coef, k.y.Exp = k.x.Coef, k.x.Exp
			fy = f64Of(cy, 3)
		}
		switch k.op {
		case "Add":
			hw = fx + fy
		case "Sub":
			hw = fx - fy
		case "Mul":
			hw = fx * fy
		case "Quo":
			hw = fx / fy
		}
		if alias == 1 {
			part = partitions3[1] // z = x
		}
		k.class = fmt.Sprintf("table/%s", k.op)
	case idx < (c04Bin+c04FMA)/c04Recv:
		i := idx - c04Bin/c04Recv
		mag := int(i % 4)
		i /= 4
		k.mode = int(i % 6)
		i /= 6
		cu := int(i % 6)
		i /= 6
		cy := int(i % 6)
		i /= 6
		cx := int(i % 6)
		k.op = "FMA"
		size := mag
		if mag == 3 {
			size, equalMag = 0, true
		}
		k.x, k.y, k.u = classVal(r, cx, size), classVal(r, cy, size), classVal(r, cu, size)
		fx, fy, fu := f64Of(cx, 3), f64Of(cy, 5), f64Of(cu, 7)
		if equalMag && k.x.Form == oracle.Finite && k.y.Form == oracle.Finite && k.u.Form == oracle.Finite {
			k.u.Coef, k.u.Exp = new(big.Int).Mul(k.x.Coef, k.y.Coef), k.x.Exp+k.y.Exp
			fu = f64Of(cu, 15)
		}
		hw = math.FMA(fx, fy, fu)
		part = partitions4[int(idx)%len(partitions4)]
		k.class = "table/FMA"
	default:
		i := idx - (c04Bin+c04FMA)/c04Recv
		alias := int(i % 2)
		i /= 2
		size := int(i % 3)
		i /= 3
		k.mode = int(i % 6)
		i /= 6
		cx := int(i % 6)
		k.op = "Sqrt"
		k.x = classVal(r, cx, size)
		if size == 2 && k.x.Form == oracle.Finite { // keep the big square root affordable
			k.x = r.Finite(r.Range(500, 700), int64(r.Range(-30, 30)))
			k.x.Neg = cx == 1
		}
		hw = math.Sqrt(f64Of(cx, 3))
		if alias == 1 {
			part = partitions2[1]
		}
		k.class = "table/Sqrt"
	}
	k.p = int64(r.Range(1, 60))
	if r.Chance(20) {
		k.p = int64(r.Range(1, 2400))
	}
	k.attrs(r)
	k.dirty = recvState // enumerated, not drawn
	k.applyShape(part)
	shape := shapeName(part, k.arity())
	// when sharing changed operand values the hardware reference no longer describes the case: recompute classes from values
	want := hwClass(hw)
	o := k.outcome()
	if shape != "distinct" {
		// operands may have been merged: the modelled rule decides, hardware is used for distinct variables only
		want = ""
	}
	// IEEE 754 6.3 on top of the hardware (which runs in round-to-nearest): an exactly zero sum of opposite-signed addends is -0 under ToNegativeInf
	if want == "+0" && k.mode == oracle.ToNegativeInf {
		switch k.op {
		case "Add":
			if k.x.Neg != k.y.Neg {
				want = "-0"
			}
		case "Sub":
			if k.x.Neg == k.y.Neg {
				want = "-0"
			}
		case "FMA":
			if (k.x.Neg != k.y.Neg) != k.u.Neg {
				want = "-0"
			}
		}
	}
	if c.Verbose {
		fmt.Println("cell:", k.desc(true), "shape:", shape, "hardware class:", want)
	}
	got, pi, _, _ := k.execShape(part, nil)
	cell := fmt.Sprintf("%s(%s)", k.op, valClass(k.x))
	if k.arity() >= 2 {
		cell = fmt.Sprintf("%s(%s,%s)", k.op, valClass(k.x), valClass(k.y))
	}
	if k.arity() == 3 {
		cell = fmt.Sprintf("%s(%s,%s,%s)", k.op, valClass(k.x), valClass(k.y), valClass(k.u))
	}
	c.Eval(hx.HashStr(fmt.Sprintf("%s|%d|%s|%v|%d", cell, k.mode, shape, equalMag, recvState)), true, k.class)
	c.Classes[fmt.Sprintf("receiver-state/%d", recvState)]++
	if c.WantSample(k.class) {
		c.Sample(k.class, fmt.Sprintf("%s mode=%s shape=%s -> %s", cell, oracle.ModeNames[k.mode], shape, got))
	}
	if pi != nil && (pi.Class == "mk" || pi.Class == "cost") {
		panic(pi.Val)
	}
	wantNaN := o.NaN
	if want != "" && (want == "NaN") != wantNaN {
		c.Inconclusive(fmt.Sprintf("oracle self-check: hardware says %s, modelled rule says NaN=%v for %s", want, wantNaN, k.desc(true)))
		return
	}
	if wantNaN {
		c.Count("invalid_operation_cells", 1)
		switch {
		case pi == nil:
			c.Violate("missing-ErrNaN", fmt.Sprintf("%s shape %s: invalid operation did not panic, receiver %s", k.desc(true), shape, got), "")
		case !pi.IsNaN:
			c.Violate("wrong-panic", fmt.Sprintf("%s shape %s: invalid operation panicked with %s %q, not ErrNaN", k.desc(true), shape, pi.Class, pi.Text), "")
		case k.lastCanon != "":
			c.Violate("invalid-receiver-after-ErrNaN", fmt.Sprintf("%s shape %s: after the ErrNaN panic the receiver is %s: %s", k.desc(true), shape, got, k.lastCanon), "")
		default:
			c.Count("receivers_valid_after_ErrNaN", 1)
		}
		return
	}
	if pi != nil {
		c.Violate("panic", fmt.Sprintf("%s shape %s: valid operation panicked: %s %q at %s", k.desc(true), shape, pi.Class, pi.Text, pi.Stack), "")
		return
	}
	v := k.judge(got)
	additive := k.op == "Add" || k.op == "Sub" || k.op == "FMA"
	if additive && len(want) == 4 && want[1:] == "fin" && valClass(v.exp.V)[1:] == "fin" {
		// the sign of a non-zero finite sum depends on the magnitudes, which the hardware representatives do not share
		want = valClass(v.exp.V)
	}
	if want != "" && valClass(v.exp.V) != want {
		c.Inconclusive(fmt.Sprintf("oracle self-check: hardware class %s, model class %s for %s", want, valClass(v.exp.V), k.desc(true)))
		return
	}
	if gc := valClass(got.V); gc != valClass(v.exp.V) {
		c.Violate("wrong-class", fmt.Sprintf("%s shape %s: result %s, IEEE 754 wants %s", k.desc(true), shape, got, valClass(v.exp.V)), "")
		return
	}
	if !v.m1Value && v.m2Value != "" {
		c.Violate("wrong-value", fmt.Sprintf("%s shape %s: stored %s, want %s (%s)", k.desc(true), shape, got.V.Full(), v.exp.V.Full(), v.m2Value), "")
	}
}

// afterNaN checks that a receiver is still a valid Decimal after an ErrNaN panic.
func afterNaN(c *hx.Ctx, what string, z *decimal.Decimal) {
	if msg := hx.Canonical(z); msg != "" {
		c.Violate("invalid-receiver-after-ErrNaN", what+": "+msg, "")
	}
}

// ----------------------------------------------------------- panic hunt

func huntVal(r *hx.RNG, tier string, maxLE int64) oracle.Val {
	switch k := r.Intn(100); {
	case k < 7:
		return oracle.Val{Form: oracle.Zero, Neg: r.Bool()}
	case k < 13:
		return oracle.Val{Form: oracle.Inf, Neg: r.Bool()}
	}
	var n int
	switch k := r.Intn(100); {
	case k < 55:
		n = r.Range(1, 60)
	case k < 80:
		n = r.Range(60, 700)
	default:
		n = r.Range(700, 2700)
		if tier == "thorough" && r.Chance(20) {
			n = r.Range(2700, 9000)
		}
	}
	le := r.LeadExp()
	if maxLE > 0 && (le > maxLE || le < -maxLE) {
		le = int64(r.Range(int(-maxLE), int(maxLE)))
	}
	return r.Finite(n, le)
}

func mkHunt(r *hx.RNG, v oracle.Val) *decimal.Decimal {
	return hx.Mk(v, digitsOf(v)+uint(r.Intn(3)*r.Intn(30)), r.Mode())
}

var huntVerbs = []string{"%e", "%E", "%f", "%F", "%g", "%G", "%v", "%s", "%b", "%p", "%.3e", "%10.2f", "%-20.5g", "%+.0e", "% 08.3f", "%d", "%x", "%q"}

func c04Hunt(c *hx.Ctx, r *hx.RNG) {
	tier := c.Tier
	op := r.Intn(38)
	name := ""
	kf := ""
	expectNaN := false
	var recv *decimal.Decimal
	newZ := func() *decimal.Decimal {
		z := new(decimal.Decimal)
		if r.Chance(85) {
			z.SetPrec(uint(r.Range(1, 120)))
			if r.Chance(10) {
				z.SetPrec(uint(r.Range(120, 3000)))
			}
		}
		z.SetMode(decimal.RoundingMode(r.Mode()))
		recv = z
		return z
	}
	near := func(a oracle.Val, maxOff int) oracle.Val { // a value whose exponent is near a's (bounded alignment cost)
		b := huntVal(r, tier, 0)
		if a.Form == oracle.Finite && b.Form == oracle.Finite {
			b.Exp = a.LeadExp() + int64(r.Range(-maxOff, maxOff)) - oracle.Digits(b.Coef)
			b = inRange(b)
		}
		return b
	}
	var f func()
	switch op {
	case 0, 1: // Add / Sub
		x := huntVal(r, tier, 0)
		y := near(x, 1500)
		X, Y, z := mkHunt(r, x), mkHunt(r, y), newZ()
		if op == 0 {
			name, expectNaN = "Add", oracle.Add(x, y, 0).NaN
			f = func() { z.Add(X, Y) }
		} else {
			name, expectNaN = "Sub", oracle.Sub(x, y, 0).NaN
			f = func() { z.Sub(X, Y) }
		}
	case 2, 3: // Mul (incl. squares through one variable: Karatsuba squaring)
		x, y := huntVal(r, tier, 0), huntVal(r, tier, 0)
		X, Y, z := mkHunt(r, x), mkHunt(r, y), newZ()
		if op == 3 {
			Y, y = X, x
		}
		name, expectNaN = "Mul", oracle.Mul(x, y).NaN
		f = func() { z.Mul(X, Y) }
	case 4, 5, 6: // Quo, biased to long divisors (recursive division) with adversarial words
		x, y := huntVal(r, tier, 0), huntVal(r, tier, 0)
		if op == 6 && y.Form == oracle.Finite {
			n := r.Range(1900, 4200)
			y = r.Finite(n, 0)
			x = r.Finite(n+r.Range(0, 3000), 0)
			if r.Bool() { // dividend = q*v + small: exact or nearly exact recursive division
				q := hx.CoefOf(r.Digits(r.Range(1, 2500)))
				x.Coef = new(big.Int).Mul(q, y.Coef)
				if r.Bool() {
					x.Coef.Add(x.Coef, big.NewInt(int64(r.Intn(1000))))
				}
			}
		}
		X, Y, z := mkHunt(r, x), mkHunt(r, y), newZ()
		if z.Prec() == 0 && (X.Prec() > 6000 || Y.Prec() > 6000) {
			z.SetPrec(uint(r.Range(1, 6000)))
		}
		if op == 6 && r.Bool() {
			z.SetPrec(uint(r.Range(1900, 6000)))
		}
		name, expectNaN = "Quo", oracle.Quo(x, y).NaN
		f = func() { z.Quo(X, Y) }
	case 7: // FMA
		x, y := huntVal(r, tier, 0), huntVal(r, tier, 0)
		u := huntVal(r, tier, 0)
		if x.Form == oracle.Finite && y.Form == oracle.Finite {
			p := oracle.Val{Form: oracle.Finite, Coef: new(big.Int).Mul(x.Coef, y.Coef), Exp: x.Exp + y.Exp}
			if le := p.LeadExp(); le >= oracle.MinExp && le <= oracle.MaxExp {
				u = near(p, 1500)
			}
		}
		X, Y, U, z := mkHunt(r, x), mkHunt(r, y), mkHunt(r, u), newZ()
		name, expectNaN = "FMA", oracle.FMA(x, y, u, 0).NaN
		if nan, _, ok := fmaKnownOutcome(&opCase{op: "FMA", x: x, y: y, u: u, p: 1}); ok && nan {
			kf = "fma_product_exponent_out_of_range" // D15: the only thing this hunt can see of it is the spurious ErrNaN
		}
		f = func() { z.FMA(X, Y, U) }
	case 8: // Sqrt
		x := huntVal(r, tier, 0)
		if x.Form == oracle.Finite && oracle.Digits(x.Coef) > 700 && !(tier == "thorough" && r.Chance(10)) {
			x = r.Finite(r.Range(1, 700), r.LeadExp())
		}
		if r.Chance(70) {
			x.Neg = false
		}
		X, z := mkHunt(r, x), newZ()
		if z.Prec() > 800 {
			z.SetPrec(uint(r.Range(1, 800)))
		}
		name, expectNaN = "Sqrt", oracle.Sqrt(x).NaN
		f = func() { z.Sqrt(X) }
	case 9:
		x := huntVal(r, tier, 0)
		X, z := mkHunt(r, x), newZ()
		name = []string{"Set", "Neg", "Abs", "Copy"}[r.Intn(4)]
		f = func() {
			switch name {
			case "Set":
				z.Set(X)
			case "Neg":
				z.Neg(X)
			case "Abs":
				z.Abs(X)
			default:
				z.Copy(X)
			}
		}
	case 10:
		z := mkHunt(r, huntVal(r, tier, 0))
		recv = z
		p := uint(r.Range(0, 200))
		if r.Chance(5) {
			p = math.MaxUint32
		}
		name = "SetPrec/SetMode"
		f = func() { z.SetPrec(p).SetMode(decimal.RoundingMode(r.Mode())) }
	case 11:
		X, Y := mkHunt(r, huntVal(r, tier, 0)), mkHunt(r, huntVal(r, tier, 0))
		name = "Cmp/Sign/predicates"
		f = func() {
			X.Cmp(Y)
			Y.Cmp(X)
			X.Sign()
			X.Signbit()
			X.IsInf()
			X.IsZero()
			X.IsInt()
			X.MinPrec()
			X.Prec()
			X.Mode()
			X.Acc()
			X.MantExp(nil)
		}
	case 12:
		n := r.Range(0, 400)
		if r.Chance(5) {
			n = r.Range(400, 20000)
		}
		b := new(big.Int)
		if n > 0 {
			b = hx.CoefOf(r.Digits(n))
		}
		if r.Bool() {
			b.Neg(b)
		}
		z := newZ()
		name = "SetInt"
		f = func() { z.SetInt(b) }
	case 13:
		z := newZ()
		v := r.U64()
		name = "SetInt64/SetUint64/NewDecimal"
		e := int(r.LeadExp())
		if r.Chance(10) {
			e = []int{math.MaxInt64, math.MinInt64, math.MaxInt32, math.MinInt32, math.MaxInt64 - 5, math.MinInt64 + 5}[r.Intn(6)]
		}
		f = func() {
			z.SetInt64(int64(v))
			z.SetUint64(v)
			recv = decimal.NewDecimal(int64(v), e)
			if r.Chance(20) {
				recv = decimal.NewDecimal(math.MinInt64, e)
			}
		}
	case 14:
		a := hx.CoefOf(r.Digits(r.Range(1, 300)))
		b := hx.CoefOf(r.Digits(r.Range(1, 300)))
		q := new(big.Rat).SetFrac(a, b)
		if r.Bool() {
			q.Neg(q)
		}
		if r.Chance(10) {
			q.SetInt64(0)
		}
		z := newZ()
		name = "SetRat"
		f = func() { z.SetRat(q) }
	case 15:
		bf := new(big.Float).SetPrec(uint(r.Range(1, 2000)))
		switch r.Intn(8) {
		case 0:
			bf.SetInf(r.Bool())
		case 1:
			if r.Bool() {
				bf.Neg(bf)
			}
		default:
			bf.SetInt(hx.CoefOf(r.Digits(r.Range(1, 300))))
			bf.SetMantExp(bf, r.Range(-100000, 100000))
			if r.Bool() {
				bf.Neg(bf)
			}
		}
		z := newZ()
		name = "SetFloat"
		f = func() { z.SetFloat(bf) }
	case 16:
		fl := math.Float64frombits(r.U64())
		switch r.Intn(10) {
		case 0:
			fl = math.Inf(1 - 2*r.Intn(2))
		case 1:
			fl = math.Copysign(0, float64(1-2*r.Intn(2)))
		case 2:
			fl = math.NaN()
		case 3:
			fl = math.Float64frombits(r.U64() >> 12) // subnormal
		}
		z := newZ()
		name, expectNaN = "SetFloat64", math.IsNaN(fl)
		f = func() { z.SetFloat64(fl) }
	case 17:
		X, z := mkHunt(r, huntVal(r, tier, 0)), newZ()
		e := int(r.LeadExp())
		if r.Chance(15) {
			e = []int{math.MaxInt64, math.MinInt64, math.MaxInt32, math.MinInt32}[r.Intn(4)]
		}
		name = "SetMantExp/MantExp"
		f = func() {
			z.SetMantExp(X, e)
			X.MantExp(z)
			z.SetInf(r.Bool())
		}
	case 18:
		n := r.Range(0, 40)
		w := make([]decimal.Word, n)
		for i := range w {
			switch r.Intn(4) {
			case 0:
				w[i] = 0
			case 1:
				w[i] = decimal.Word(hx.WordBase - 1)
			default:
				w[i] = decimal.Word(r.U64() % hx.WordBase)
			}
		}
		e := int64(r.U64())
		if r.Chance(60) {
			e = r.LeadExp()
		}
		z := newZ()
		name = "SetBitsExp/BitsExp"
		f = func() {
			z.SetBitsExp(w, e)
			z.BitsExp()
		}
	case 19, 20: // integer / rational conversions at moderate exponents
		X := mkHunt(r, huntVal(r, tier, 3000))
		name = "Int/Int64/Uint64/Rat"
		f = func() {
			X.Int(nil)
			X.Int(new(big.Int).SetInt64(77))
			X.Int64()
			X.Uint64()
			X.Rat(nil)
			X.Rat(big.NewRat(5, 3))
		}
	case 21:
		X := mkHunt(r, huntVal(r, tier, 20000))
		name = "Float/Float64/Float32"
		f = func() {
			X.Float(nil)
			X.Float(new(big.Float).SetPrec(uint(r.Range(1, 500))))
			X.Float64()
			X.Float32()
		}
	case 22:
		X := mkHunt(r, huntVal(r, tier, 0)) // any exponent
		name = "Float64/Float32 (any exponent)"
		f = func() {
			X.Float64()
			X.Float32()
		}
	case 23, 24: // text output; 'f' only at moderate exponents
		X := mkHunt(r, huntVal(r, tier, 3000))
		prec := r.Range(-1, 60)
		name = "Text/Append/String/MarshalText/MarshalJSON"
		f = func() {
			for _, ft := range []byte("eEfgGpb?") {
				X.Text(ft, prec)
			}
			_ = X.String()
			X.Append(make([]byte, 0, 8), 'g', prec)
			X.MarshalText()
			json.Marshal(X)
		}
	case 25:
		X := mkHunt(r, huntVal(r, tier, 0))
		prec := r.Range(-1, 60)
		name = "Text e/g/p/b (any exponent)"
		f = func() {
			for _, ft := range []byte("eEgGpb") {
				X.Text(ft, prec)
			}
			X.MarshalText()
		}
	case 26:
		X := mkHunt(r, huntVal(r, tier, 300))
		verb := huntVerbs[r.Intn(len(huntVerbs))]
		name = "fmt.Sprintf " + verb
		f = func() { _ = fmt.Sprintf(verb, X) }
	case 27, 28, 29: // parsing of generated and mutated literals, all valid bases
		s := genLiteralish(r)
		base := []int{0, 2, 8, 10, 16}[r.Intn(5)]
		z := newZ()
		name = "Parse/SetString/ParseDecimal/UnmarshalText/Scan"
		f = func() {
			z.Parse(s, base)
			z.SetString(s)
			decimal.ParseDecimal(s, base, uint(r.Range(0, 50)), decimal.RoundingMode(r.Mode()))
			z.UnmarshalText([]byte(s))
			fmt.Sscan(s, z)
			json.Unmarshal([]byte(s), z)
		}
	case 30, 31: // gob of valid values, directly and through encoding/gob
		X := mkHunt(r, huntVal(r, tier, 0))
		z := newZ()
		name = "GobEncode/GobDecode (valid encodings)"
		f = func() {
			b, _ := X.GobEncode()
			if err := z.GobDecode(b); err != nil {
				panic("GobDecode rejects GobEncode's output: " + err.Error())
			}
			var buf bytes.Buffer
			if err := gob.NewEncoder(&buf).Encode(X); err != nil {
				panic("gob encode: " + err.Error())
			}
			var y decimal.Decimal
			if err := gob.NewDecoder(&buf).Decode(&y); err != nil {
				panic("gob decode: " + err.Error())
			}
			var nilD *decimal.Decimal
			nilD.GobEncode()
			nilD.MarshalText()
			z.GobDecode(nil)
		}
	default: // arithmetic at the ends of the exponent range and with huge precision attributes
		x := r.Finite(r.Range(1, 40), []int64{oracle.MaxExp, oracle.MinExp, oracle.MaxExp - 1, oracle.MinExp + 1}[r.Intn(4)])
		y := r.Finite(r.Range(1, 40), []int64{oracle.MaxExp, oracle.MinExp, 1, 0, -1}[r.Intn(5)])
		if x.LeadExp()-y.LeadExp() > 5000 || y.LeadExp()-x.LeadExp() > 5000 {
			// Add/Sub would materialise the gap: keep to Mul/Quo
			X, Y, z := mkHunt(r, x), mkHunt(r, y), newZ()
			name = "Mul/Quo at range ends"
			f = func() { z.Mul(X, Y); z.Quo(X, Y); z.Quo(Y, X) }
		} else {
			X, Y, z := mkHunt(r, x), mkHunt(r, y), newZ()
			name = "Add/Sub/Mul/Quo at range ends"
			f = func() { z.Add(X, Y); z.Sub(X, Y); z.Mul(X, Y); z.Quo(X, Y) }
		}
	}
	c.Note(name)
	pi := hx.Try(f)
	cls := "hunt/" + name
	c.Eval(r.U64(), true, cls)
	if c.WantSample(cls) {
		c.Sample(cls, fmt.Sprintf("%s panic=%v", name, pi != nil))
	}
	if pi != nil && (pi.Class == "mk" || pi.Class == "cost") {
		panic(pi.Val)
	}
	switch {
	case pi == nil && expectNaN:
		c.Violate("missing-ErrNaN", name+": invalid operation did not panic", kf)
	case pi == nil:
	case pi.IsNaN && expectNaN:
		c.Count("hunt_ErrNaN_panics", 1)
		if recv != nil {
			afterNaN(c, name, recv)
		}
	case pi.IsNaN:
		c.Violate("unexpected-ErrNaN", fmt.Sprintf("%s: valid operation panicked with ErrNaN %q", name, pi.Text), kf)
	default:
		c.Violate("panic", fmt.Sprintf("%s: %s panic %q at %s", name, pi.Class, pi.Text, pi.Stack), "")
	}
}

// genLiteralish produces number-like strings: valid literals in all bases and token-level mutations of them.
func genLiteralish(r *hx.RNG) string {
	toks := []string{"0", "1", "7", "9", "a", "f", "_", ".", "e", "E", "p", "P", "x", "X", "b", "B", "o", "O", "+", "-", "Inf", "inf", "0x", "0b", "0o", "e+", "p-", "e-", "00", "99999999999999999999", "2147483647", "2147483648", "9223372036854775807", "9223372036854775808", " ", "\x00", "\xff", "é",
		// runes whose low byte is an ASCII digit, '.', 'e', 'E', '-', '+', '_', 'x': a reader that truncates runes to bytes sees number characters
		"\u0130", "\u0131", "\u0135", "\u0139", "\u012e", "\u0165", "\u0145", "\u012d", "\u012b", "\u015f", "\u0178", "€"}
	var b []byte
	switch r.Intn(4) {
	case 0: // decimal literal
		if r.Bool() {
			b = append(b, "+-"[r.Intn(2)])
		}
		b = append(b, r.Digits(r.Range(1, 80))...)
		if r.Bool() {
			b = append(b, '.')
			b = append(b, r.Digits(r.Range(1, 80))...)
		}
		if r.Bool() {
			b = append(b, "eE"[r.Intn(2)])
			b = append(b, fmt.Sprint(r.LeadExp())...)
		}
	case 1: // prefixed literal
		pre := []string{"0x", "0X", "0b", "0B", "0o", "0O"}[r.Intn(6)]
		b = append(b, pre...)
		alpha := "0123456789abcdefABCDEF"
		switch pre[1] {
		case 'b', 'B':
			alpha = "01"
		case 'o', 'O':
			alpha = "01234567"
		}
		for i := r.Range(1, 40); i > 0; i-- {
			b = append(b, alpha[r.Intn(len(alpha))])
		}
		if r.Bool() {
			b = append(b, '.')
			for i := r.Range(1, 20); i > 0; i-- {
				b = append(b, alpha[r.Intn(len(alpha))])
			}
		}
		if r.Bool() {
			b = append(b, "pP"[r.Intn(2)])
			e := int64(r.Range(-3000, 3000))
			if r.Chance(15) {
				e = int64(r.U64())
			}
			b = append(b, fmt.Sprint(e)...)
		}
	case 2: // token soup
		for i := r.Range(0, 12); i > 0; i-- {
			b = append(b, toks[r.Intn(len(toks))]...)
		}
	default: // mutate a valid literal
		b = append(b, r.Digits(r.Range(1, 30))...)
		b = append(b, '.')
		b = append(b, r.Digits(r.Range(1, 30))...)
		b = append(b, "e-12"...)
		for i := r.Range(1, 3); i > 0; i-- {
			pos := r.Intn(len(b))
			t := toks[r.Intn(len(toks))]
			switch r.Intn(3) {
			case 0:
				b = append(b[:pos], append([]byte(t), b[pos:]...)...)
			case 1:
				b = append(b[:pos], b[pos+1:]...)
				if len(b) == 0 {
					b = []byte("1")
				}
			default:
				b[pos] ^= byte(1 << uint(r.Intn(8)))
			}
		}
	}
	return string(b)
}
