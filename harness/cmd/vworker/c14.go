package main

import (
	"fmt"
	"math"
	"math/big"

	"github.com/db47h/decimal"

	"verifharness/hx"
	"verifharness/oracle"
)

// C14 — integer and rational conversions are exact, with documented saturation.

func init() {
	engines["C14"] = &engine{N: tierN(200000, 8000000), Setup: selfTest, Case: c14Case}
}

var (
	big2p63  = new(big.Int).Lsh(big.NewInt(1), 63)
	big2p64b = new(big.Int).Lsh(big.NewInt(1), 64)
)

// genAround returns values clustered at the saturation and word boundaries, with and without a fractional part.
func genAround(r *hx.RNG) oracle.Val {
	anchors := []*big.Int{big2p63, big2p64b, oracle.Pow10(19), oracle.Pow10(38), oracle.Pow10(18), oracle.Pow10(20), new(big.Int).Sub(big2p63, big.NewInt(1)), new(big.Int).Sub(big2p64b, big.NewInt(1)), big.NewInt(1), big.NewInt(0)}
	a := new(big.Int).Set(anchors[r.Intn(len(anchors))])
	a.Add(a, big.NewInt(int64(r.Range(-3, 3))))
	if a.Sign() < 0 {
		a.Neg(a)
	}
	// fractional part: append k digits
	k := int64(0)
	switch r.Intn(4) {
	case 0:
		k = int64(r.Range(1, 30))
		a.Mul(a, oracle.Pow10(k))
		a.Add(a, hx.CoefOf(r.Digits(int(k))))
		if r.Bool() { // fraction of all nines or a single low digit
			a.Sub(a, hx.CoefOf(r.Digits(int(k))))
			a.Add(a, big.NewInt(1))
		}
	case 1:
		k = -int64(r.Range(1, 25)) // trailing zeros: integer written with a positive exponent
	}
	a.Abs(a)
	if a.Sign() == 0 {
		return oracle.Val{Form: oracle.Zero, Neg: r.Bool()}
	}
	if k < 0 {
		q, rem := new(big.Int).QuoRem(a, oracle.Pow10(-k), new(big.Int))
		if rem.Sign() == 0 && q.Sign() != 0 {
			return oracle.Val{Form: oracle.Finite, Neg: r.Bool(), Coef: q, Exp: -k}
		}
		k = 0
	}
	return oracle.Val{Form: oracle.Finite, Neg: r.Bool(), Coef: a, Exp: -k}
}

// c14Sizes: one conversion per run each at sizes where a size computed in 32 bits, or a helper with a built-in limit,
// gives way: SetInt of an integer of more than 430 000 digits (1.4 million bits) and Rat of a value with more than a
// million digits behind the point. Both take seconds on the unchanged tree.
func c14Sizes(c *hx.Ctx, r *hx.RNG, which int) {
	mode := r.Mode()
	if which == 0 {
		n := r.Range(430000, 470000)
		b := new(big.Int).Add(oracle.Pow10(int64(n)), big.NewInt(int64(r.Range(1, 99999))))
		if r.Bool() {
			b.Neg(b)
		}
		p := int64([]int{0, 5, 40, n + 1}[r.Intn(4)])
		what := fmt.Sprintf("SetInt(+-(10^%d + small)) prec=%d mode=%s", n, p, oracle.ModeNames[mode])
		c.Note(what)
		z := newRecv(p, mode)
		pi := hx.Try(func() { z.SetInt(b) })
		c.Eval(hx.HashStr(what), true, "SetInt/430000-digits")
		if pi != nil {
			c.Violate("panic", fmt.Sprintf("%s: %s panic %q at %s", what, pi.Class, pi.Text, pi.Stack), "")
			return
		}
		got := hx.Snapshot(z)
		pe := p
		if p == 0 {
			pe = int64(got.Prec)
		}
		valueVerdict(c, what, oracle.Ident(valOfBig(b, 0)), got, pe, mode, "")
		return
	}
	k := int64(r.Range(1000001, 1100000))
	v := r.Finite(r.Range(1, 20), 0)
	v.Exp = -k
	what := fmt.Sprintf("Rat of %s", v.Full())
	c.Note(what)
	x := hx.Mk(v, digitsOf(v), mode)
	var q *big.Rat
	var acc decimal.Accuracy
	pi := hx.Try(func() { q, acc = x.Rat(nil) })
	c.Eval(hx.HashStr(what), true, "Rat/million-digit-fraction")
	if pi != nil {
		c.Violate("panic", fmt.Sprintf("%s: %s panic %q at %s", what, pi.Class, pi.Text, pi.Stack), "")
		return
	}
	want := new(big.Rat).SetFrac(v.Coef, oracle.Pow10(k))
	if v.Neg {
		want.Neg(want)
	}
	if q == nil || q.Cmp(want) != 0 || acc != decimal.Exact {
		c.Violate("Rat", fmt.Sprintf("%s: result differs from the exact value (accuracy %v)", what, acc), "")
	}
}

// c14HugeMantissa: Int64 and Uint64 of a value held in a mantissa of a little more than 2^31 digits (0.9 GB, mostly
// untouched zero pages; one per run): ddddd.000...07 with five integer digits must come back as (ddddd, Below).
func c14HugeMantissa(c *hx.Ctx, r *hx.RNG) {
	n := (1<<31)/19 + r.Range(1, 4)
	w := make([]decimal.Word, n)
	d := uint64(r.Range(10000, 99999))
	w[n-1], w[0] = decimal.Word(d*100000000000000), decimal.Word(r.Range(1, 9))
	neg := r.Bool()
	what := fmt.Sprintf("Int64/Uint64 of %d.000...0%d held in %d mantissa words (%d digits), negative=%v", d, w[0], n, 19*n, neg)
	c.Note(what)
	x := new(decimal.Decimal).SetPrec(uint(19*n)).SetBitsExp(w, 5)
	if neg {
		x.Neg(x)
	}
	var i64 int64
	var u64 uint64
	var a1, a2 decimal.Accuracy
	pi := hx.Try(func() {
		i64, a1 = x.Int64()
		u64, a2 = x.Uint64()
	})
	c.Eval(hx.HashStr(what), true, "getter/mantissa-beyond-2^31-digits")
	if pi != nil {
		c.Violate("panic", fmt.Sprintf("%s: %s panic %q at %s", what, pi.Class, pi.Text, pi.Stack), "")
		return
	}
	wi, wa, wu, wua := int64(d), decimal.Below, d, decimal.Below
	if neg {
		wi, wa, wu, wua = -int64(d), decimal.Above, 0, decimal.Above
	}
	if i64 != wi || a1 != wa || u64 != wu || a2 != wua {
		c.Violate("Int64", fmt.Sprintf("%s: Int64 = (%d, %v), Uint64 = (%d, %v); want (%d, %v) and (%d, %v)", what, i64, a1, u64, a2, wi, wa, wu, wua), "")
	}
}

func c14Case(c *hx.Ctx, r *hx.RNG, idx int64) {
	if idx%4000000 == 77 {
		c14HugeMantissa(c, r)
		releaseHuge()
		return
	}
	if m := idx % 4000000; m == 13 || m == 45 { // (same shard, one after the other)
		c14Sizes(c, r, map[int64]int{13: 0, 45: 1}[m])
		return
	}
	if r.Chance(60) {
		c14Getters(c, r)
		return
	}
	c14Setters(c, r)
}

func accName(a int) string { return []string{"Below", "Exact", "Above"}[a+1] }

func c14Getters(c *hx.Ctx, r *hx.RNG) {
	var v oracle.Val
	cls := "getter/around-boundaries"
	switch k := r.Intn(100); {
	case k < 45:
		v = genAround(r)
	case k < 50:
		v = oracle.Val{Form: oracle.Zero, Neg: r.Bool()}
		cls = "getter/zero"
	case k < 55:
		v = oracle.Val{Form: oracle.Inf, Neg: r.Bool()}
		cls = "getter/inf"
	case k < 80: // exponent 0..25 (the x.exp <= 20 branch and just beyond)
		v = r.Finite(r.Range(1, 45), int64(r.Range(-3, 25)))
		cls = "getter/exp-0-25"
	default:
		le := int64(r.Range(-20000, 20000))
		if r.Chance(70) {
			le = int64(r.Range(-300, 300))
		}
		v = r.Finite(r.Range(1, 300), le)
		cls = "getter/moderate-exponent"
	}
	x := hx.MkR(r, v, xPrec(r, v, uint(r.Intn(3)*r.Intn(25))), r.Mode())
	what := "conversions of " + v.Full() + fmt.Sprintf(" (prec %d)", x.Prec())
	c.Note(what)
	if c.Verbose {
		fmt.Println("case:", what)
	}
	pre := hx.Snapshot(x)
	c.Eval(hx.HashStr(what), v.Form == oracle.Finite, cls)
	if c.WantSample(cls) {
		c.Sample(cls, what)
	}
	// exact integer part (toward zero) and whether something was discarded
	var ip *big.Int
	frac := false
	if v.Form == oracle.Finite {
		if v.Exp >= 0 {
			ip = new(big.Int).Mul(v.Coef, oracle.Pow10(v.Exp))
		} else {
			var rem big.Int
			ip, _ = new(big.Int).QuoRem(v.Coef, oracle.Pow10(-v.Exp), &rem)
			frac = rem.Sign() != 0
		}
		if v.Neg {
			ip.Neg(ip)
		}
	} else {
		ip = new(big.Int)
	}
	truncAcc := 0
	if frac {
		truncAcc = -1
		if v.Neg {
			truncAcc = 1
		}
	}
	bad := func(kind, f string, a ...interface{}) {
		c.Violate(kind, what+": "+fmt.Sprintf(f, a...), "")
	}
	pi := hx.Try(func() {
		// Int
		for _, dst := range []*big.Int{nil, big.NewInt(-77)} {
			got, acc := x.Int(dst)
			switch v.Form {
			case oracle.Inf:
				if got != nil {
					bad("Int", "Int of an infinity returned %v, want nil", got)
				}
			default:
				if got == nil || got.Cmp(ip) != 0 {
					bad("Int", "Int = %v, want %v", got, ip)
				} else if int(acc) != truncAcc {
					bad("Int-acc", "Int accuracy %s, want %s", accName(int(acc)), accName(truncAcc))
				}
				if dst != nil && got != dst {
					bad("Int", "Int did not use the provided *big.Int")
				}
			}
		}
		// Int64
		{
			got, acc := x.Int64()
			want, wacc := int64(0), truncAcc
			switch {
			case v.Form == oracle.Inf && v.Neg, v.Form == oracle.Finite && ip.Cmp(big.NewInt(math.MinInt64)) < 0:
				want, wacc = math.MinInt64, 1
			case v.Form == oracle.Inf, v.Form == oracle.Finite && ip.Cmp(big.NewInt(math.MaxInt64)) > 0:
				want, wacc = math.MaxInt64, -1
			default:
				want = ip.Int64()
			}
			if got != want || int(acc) != wacc {
				bad("Int64", "Int64 = (%d, %s), want (%d, %s)", got, accName(int(acc)), want, accName(wacc))
			}
		}
		// Uint64
		{
			got, acc := x.Uint64()
			want, wacc := uint64(0), truncAcc
			maxU := new(big.Int).SetUint64(math.MaxUint64)
			switch {
			case v.Form == oracle.Zero:
				want, wacc = 0, 0
			case v.Neg: // any negative value, finite or infinite
				want, wacc = 0, 1
			case v.Form == oracle.Inf, ip.Cmp(maxU) > 0:
				want, wacc = math.MaxUint64, -1
			default:
				want = ip.Uint64()
			}
			if got != want || int(acc) != wacc {
				bad("Uint64", "Uint64 = (%d, %s), want (%d, %s)", got, accName(int(acc)), want, accName(wacc))
			}
		}
		// Rat
		for _, dst := range []*big.Rat{nil, big.NewRat(22, 7)} {
			got, acc := x.Rat(dst)
			switch v.Form {
			case oracle.Inf:
				if got != nil {
					bad("Rat", "Rat of an infinity returned %v, want nil", got)
				}
			case oracle.Zero:
				if got == nil || got.Sign() != 0 || acc != 0 {
					bad("Rat", "Rat of zero = %v acc %d", got, acc)
				}
			default:
				want := valRat(v)
				if got == nil || got.Cmp(want) != 0 {
					bad("Rat", "Rat = %v, want %v", got, want)
				} else if acc != 0 {
					bad("Rat-acc", "Rat accuracy %s, want Exact", accName(int(acc)))
				}
			}
		}
		// results belong to the caller: using a returned Rat or Int as a variable of its own (math/big setters write into the
		// storage they find) must not change what the next conversion returns
		if v.Form == oracle.Finite {
			q1, _ := x.Rat(nil)
			i1, _ := x.Int(nil)
			if q1 != nil && i1 != nil {
				q1.SetFrac64(int64(r.Range(1, 99)), 7)
				q1.SetInt64(3)
				i1.SetInt64(-12345)
				i1.Lsh(i1, 70)
				q2, _ := x.Rat(nil)
				i2, _ := x.Int(nil)
				if q2 == nil || q2.Cmp(valRat(v)) != 0 {
					bad("Rat", "after the previously returned Rat had been reused as a variable, Rat = %v, want %v", q2, valRat(v))
				}
				if i2 == nil || i2.Cmp(ip) != 0 {
					bad("Int", "after the previously returned Int had been reused as a variable, Int = %v, want %v", i2, ip)
				}
				c.Count("returned_big_values_reused", 1)
			}
		}
		// IsInt, MinPrec, Sign
		wantInt := v.Form == oracle.Zero || (v.Form == oracle.Finite && !frac)
		if x.IsInt() != wantInt {
			bad("IsInt", "IsInt = %v, want %v", x.IsInt(), wantInt)
		}
		if int64(x.MinPrec()) != v.MinPrec() {
			bad("MinPrec", "MinPrec = %d, want %d", x.MinPrec(), v.MinPrec())
		}
	})
	if pi != nil {
		c.Violate("panic", fmt.Sprintf("%s: %s panic %q at %s", what, pi.Class, pi.Text, pi.Stack), "")
		return
	}
	if !hx.SameState(pre, hx.Snapshot(x)) {
		c.Violate("operand-modified", what+": a getter changed x", "")
	}
}

func c14Setters(c *hx.Ctx, r *hx.RNG) {
	mode := r.Mode()
	var what, cls string
	var o oracle.Outcome
	var z *decimal.Decimal
	var p int64
	isInteger := true
	var pi *hx.PanicInfo
	switch r.Intn(5) {
	case 0:
		x := gen64(r)
		p = setterPrec(r, len(fmt.Sprint(x)))
		z = usedRecv(r, p, mode)
		pi = hx.Try(func() { z.SetUint64(x) })
		o = oracle.Ident(valOfBig(new(big.Int).SetUint64(x), 0))
		what, cls = fmt.Sprintf("SetUint64(%d) prec=%d mode=%s", x, p, oracle.ModeNames[mode]), "SetUint64"
	case 1:
		x := int64(gen64(r))
		if r.Chance(8) {
			x = math.MinInt64
		}
		p = setterPrec(r, len(fmt.Sprint(x)))
		z = usedRecv(r, p, mode)
		pi = hx.Try(func() { z.SetInt64(x) })
		o = oracle.Ident(valOfBig(big.NewInt(x), 0))
		what, cls = fmt.Sprintf("SetInt64(%d) prec=%d mode=%s", x, p, oracle.ModeNames[mode]), "SetInt64"
	case 2:
		var b *big.Int
		l := hx.LimitsFor(c.Tier)
		n := r.Len(l)
		if r.Chance(2) {
			n = r.Range(2000, 20000)
			if r.Chance(15) { // tens of thousands of digits: size estimates computed in 32 bits
				n = r.Range(20000, 160000)
			}
		}
		switch r.Intn(6) {
		case 0:
			b = new(big.Int).Lsh(big.NewInt(1), uint(r.Range(0, 3000)))
		case 1:
			b = new(big.Int).Set(oracle.Pow10(int64(r.Range(0, n))))
		case 2:
			b = new(big.Int).Sub(oracle.Pow10(int64(n)), big.NewInt(1))
		case 3:
			b = hx.CoefOf(r.RoundAimed(minInt(n, 300)))
		default:
			b = hx.CoefOf(r.Digits(n))
		}
		if r.Chance(3) {
			b = big.NewInt(0)
		}
		if r.Bool() {
			b.Neg(b)
		}
		p = setterPrec(r, int(oracle.Digits(new(big.Int).Abs(b))))
		z = usedRecv(r, p, mode)
		bc := new(big.Int).Set(b)
		pi = hx.Try(func() { z.SetInt(b) })
		if bc.Cmp(b) != 0 {
			c.Violate("argument-modified", "SetInt changed its argument", "")
		}
		o = oracle.Ident(valOfBig(b, 0))
		what, cls = fmt.Sprintf("SetInt(%s) prec=%d mode=%s", hx.BigStr(b), p, oracle.ModeNames[mode]), "SetInt"
	case 3:
		a := hx.CoefOf(r.Digits(r.Range(1, 400)))
		b := hx.CoefOf(r.Digits(r.Range(1, 400)))
		switch r.Intn(5) {
		case 0:
			b = new(big.Int).Exp(big.NewInt(2), big.NewInt(int64(r.Range(0, 60))), nil)
			b.Mul(b, new(big.Int).Exp(big.NewInt(5), big.NewInt(int64(r.Range(0, 60))), nil))
		case 1:
			q := hx.CoefOf(r.RoundAimed(r.Range(1, 60)))
			a = new(big.Int).Mul(q, b)
			b.Mul(b, oracle.Pow10(int64(r.Range(0, 40))))
		case 2:
			b = big.NewInt(1)
		}
		q := new(big.Rat).SetFrac(a, b)
		if r.Bool() {
			q.Neg(q)
		}
		p = setterPrec(r, 0)
		z = usedRecv(r, p, mode)
		qc := new(big.Rat).Set(q)
		pi = hx.Try(func() { z.SetRat(q) })
		if qc.Cmp(q) != 0 {
			c.Violate("argument-modified", "SetRat changed its argument", "")
		}
		if q.IsInt() {
			o = oracle.Ident(valOfBig(q.Num(), 0))
		} else {
			isInteger = false
			o = oracle.Outcome{Ex: oracle.ExRat{Neg: q.Sign() < 0, Num: new(big.Int).Abs(q.Num()), Den: q.Denom(), Exp: 0}}
		}
		what, cls = fmt.Sprintf("SetRat(%s) prec=%d mode=%s", trunc120(q.String()), p, oracle.ModeNames[mode]), "SetRat"
	default:
		x := int64(gen64(r))
		e := r.LeadExp()
		switch r.Intn(8) {
		case 0:
			e = extremeI64[r.Intn(len(extremeI64))]
		case 1:
			e = int64(r.U64())
		case 2:
			e = []int64{oracle.MaxExp, oracle.MinExp}[r.Intn(2)] + int64(r.Range(-22, 3))
		}
		p, mode = 34, oracle.ToNearestEven
		pi = hx.Try(func() { z = decimal.NewDecimal(x, int(e)) })
		o = identBig(big.NewInt(x), e)
		what, cls = fmt.Sprintf("NewDecimal(%d, %d)", x, e), "NewDecimal"
	}
	c.Note(what)
	if c.Verbose {
		fmt.Println("case:", what)
	}
	c.Eval(hx.HashStr(what), true, cls)
	if c.WantSample(cls) {
		c.Sample(cls, what)
	}
	if pi != nil {
		c.Violate("panic", fmt.Sprintf("%s: %s panic %q at %s", what, pi.Class, pi.Text, pi.Stack), "")
		return
	}
	got := hx.Snapshot(z)
	pe := p
	if p == 0 {
		// stored exactly, always, when the receiver's precision was 0 and the value is an integer
		pe = int64(got.Prec)
		if isInteger && !o.Special {
			ex := o.Ex.(oracle.ExDec)
			if !oracle.Equal(got.V, oracle.Val{Form: oracle.Finite, Neg: ex.Neg, Coef: ex.Coef, Exp: ex.Exp}) {
				c.Violate("not-exact-with-precision-0", fmt.Sprintf("%s: integer argument not stored exactly in a precision-0 receiver: %s (precision became %d)", what, got.V.Full(), got.Prec), "")
				return
			}
			c.Count("precision0_integer_exact", 1)
		}
		if pe < 1 {
			pe = 34
		}
	}
	if ok := valueVerdict(c, what, o, got, pe, mode, ""); ok {
		// accuracy is C02's; here only a cross-check on the exact ones
		if exp := o.Expect(pe, mode); exp.Acc == 0 && got.Acc != 0 {
			c.Violate("exact-result-reported-inexact", fmt.Sprintf("%s: stored exactly but Acc() = %s", what, accName(got.Acc)), "")
		}
	}
}
