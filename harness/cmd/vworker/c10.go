package main

import (
	"fmt"
	"math/big"

	"github.com/db47h/decimal"

	"verifharness/hx"
	"verifharness/oracle"
)

// C10 — results are independent of aliasing and of the receiver's previous
// contents. Metamorphic: the fresh-receiver, distinct-variables execution is the
// reference; no external truth is needed.

func init() {
	engines["C10"] = &engine{N: tierN(70000, 5000000), Case: c10Case}
}

func c10Len(r *hx.RNG, tier string) int {
	switch k := r.Intn(100); {
	case k < 55:
		return r.Range(1, 230) // up to 12 words
	case k < 88:
		return r.Range(200, 1330) // up to 70 words: Karatsuba
	default:
		if tier == "thorough" {
			return r.Range(1300, 5700)
		}
		return r.Range(1300, 3800) // up to 200 words: recursive division
	}
}

func genC10(r *hx.RNG, tier string) *opCase {
	k := &opCase{mode: r.Mode()}
	k.op = []string{"Add", "Sub", "Mul", "Quo", "FMA", "Sqrt", "Set", "Neg", "Abs"}[r.Intn(9)]
	n1, n2, n3 := c10Len(r, tier), c10Len(r, tier), c10Len(r, tier)
	if k.op == "Sqrt" {
		n1 = r.Range(1, 500)
	}
	le := int64(r.Range(-40, 40))
	k.x = r.Finite(n1, le)
	k.y = r.Finite(n2, le+int64(r.Range(-30, 30)))
	k.u = r.Finite(n3, le+int64(r.Range(-30, 30)))
	if k.op == "FMA" {
		k.u.Exp = k.x.LeadExp() + k.y.LeadExp() + int64(r.Range(-30, 30)) - int64(n3)
	}
	if k.op == "Sqrt" {
		k.x.Neg = false
	}
	if (k.op == "Add" || k.op == "Sub") && r.Chance(25) { // exact cancellation and near cancellation
		k.y = k.x
		if k.op == "Add" {
			k.y = k.y.Negate()
		}
		if r.Chance(40) {
			k.y.Coef = new(big.Int).Add(k.y.Coef, big.NewInt(int64(r.Range(1, 9))))
		}
	}
	if k.op == "FMA" && r.Chance(25) { // u cancels the product exactly
		k.u = oracle.Val{Form: oracle.Finite, Neg: k.x.Neg == k.y.Neg, Coef: new(big.Int).Mul(k.x.Coef, k.y.Coef), Exp: k.x.Exp + k.y.Exp}
	}
	if k.op == "Quo" && r.Chance(25) { // exact quotient
		q := hx.CoefOf(r.Digits(r.Range(1, 60)))
		k.x = oracle.Val{Form: oracle.Finite, Neg: r.Bool(), Coef: new(big.Int).Mul(q, k.y.Coef), Exp: k.y.Exp + int64(r.Range(-20, 20))}
	}
	if (k.op == "Add" || k.op == "Sub") && r.Chance(10) {
		// one operand lies whole words above the other's mantissa (nothing overlaps): with the lower one as receiver and
		// spare capacity behind its words, an in-place sum writes into stale territory
		k.x = r.Finite(r.Range(1, 60), le)
		k.y = r.Finite(r.Range(1, 40), le+int64(19*r.Range(1, 12)+r.Range(0, 18))+int64(r.Range(1, 40)))
		if r.Bool() {
			k.x, k.y = k.y, k.x
		}
	}
	if k.op == "Quo" && r.Chance(12) { // divisors that invite a shortcut: powers of ten (one mantissa word), 1, 2, 5
		k.y = oracle.Val{Form: oracle.Finite, Neg: r.Bool(), Coef: big.NewInt([]int64{1, 1, 1, 2, 5, 25}[r.Intn(6)]), Exp: int64(r.Range(-60, 60))}
		if r.Bool() {
			k.y.Coef.Mul(k.y.Coef, oracle.Pow10(int64(r.Range(0, 18))))
		}
	}
	if k.op == "FMA" && r.Chance(6) { // a product beyond the exponent range with a zero addend: FMA is Mul then, signs and accuracy included
		le1 := int64(r.Range(-1000000000, 1000000000))
		tgt := []int64{oracle.MinExp - int64(r.Range(2, 400)), oracle.MaxExp + int64(r.Range(2, 400))}[r.Intn(2)]
		k.x = r.Finite(r.Range(1, 40), le1)
		k.y = r.Finite(r.Range(1, 40), clampLE(tgt-le1, 0))
		k.u = oracle.Val{Form: oracle.Zero, Neg: r.Bool()}
	}
	// occasionally special operands
	if r.Chance(12) {
		sp := []oracle.Val{{Form: oracle.Zero}, {Form: oracle.Zero, Neg: true}, {Form: oracle.Inf}, {Form: oracle.Inf, Neg: true}}[r.Intn(4)]
		switch r.Intn(3) {
		case 0:
			k.x = sp
		case 1:
			k.y = sp
		default:
			k.u = sp
		}
		if k.op == "Sqrt" && k.x.Neg {
			k.x.Neg = false
		}
	}
	k.p = int64([]int{r.Range(1, 60), n1, n1 + n2, maxI(1, n1-r.Range(0, 40)), r.Range(1, 1400)}[r.Intn(5)])
	if k.op == "Sqrt" && k.p > 600 {
		k.p = int64(r.Range(1, 600))
	}
	if k.op == "Quo" && k.p > 4000 {
		k.p = 4000
	}
	k.class = "c10"
	k.attrs(r)
	return k
}

func sameOutcome(a, b hx.State) bool {
	return a.Prec == b.Prec && a.Mode == b.Mode && a.Acc == b.Acc && oracle.Equal(a.V, b.V)
}

// dirtyReceiver returns a function preparing a receiver with precision p and
// mode that held something else before.
func dirtyReceiver(r *hx.RNG, p int64, mode int, need int) (func() *decimal.Decimal, string) {
	kind := r.Intn(9)
	names := []string{"longer-value", "shorter-value", "zero", "neg-zero", "inf", "inexact-acc", "raw-large-cap-stale", "raw-exact-cap", "raw-zero-form-stale-mant"}
	return func() *decimal.Decimal {
		z := newRecv(p, mode)
		switch kind {
		case 0:
			z.Set(hx.Mk(r.Finite(int(p)+r.Range(1, 400), int64(r.Range(-50, 50))), 0, 0)) // rounded into z: long buffer, acc != 0
		case 1:
			z.SetInt64(int64(r.Range(-99, 99)))
		case 2:
			// already +0
		case 3:
			z.Neg(z)
		case 4:
			z.SetInf(r.Bool())
		case 5:
			three := new(decimal.Decimal).SetInt64(3)
			z.Quo(new(decimal.Decimal).SetInt64(int64(r.Range(1, 1000))), three)
		case 6, 7, 8:
			// a canonical value placed in a buffer of chosen capacity whose words beyond len are stale
			v := r.Finite(int(minI64(p, int64(r.Range(1, 300)))), int64(r.Range(-2000000000, 2000000000)))
			d := hx.Mk(v, uint(p), mode)
			raw := decimal.VerifGetRaw(d)
			capw := raw.Len
			if kind == 6 {
				capw = raw.Len + r.Range(1, need/19+40)
			}
			buf := make([]decimal.Word, capw)
			copy(buf, raw.Mant[:raw.Len])
			for i := raw.Len; i < capw; i++ {
				switch r.Intn(3) {
				case 0:
					buf[i] = decimal.Word(wb - 1)
				case 1:
					buf[i] = decimal.Word(r.U64() % wb)
				default:
					buf[i] = 0xFFFFFFFFFFFFFFFF
				}
			}
			raw.Mant = buf
			raw.Acc = decimal.Accuracy(r.Range(-1, 1))
			if kind == 8 {
				raw.Form = 0 // a zero that keeps the mantissa and exponent of what it held before
				raw.Neg = r.Bool()
			}
			decimal.VerifSetRaw(z, raw)
		}
		return z
	}, names[kind]
}

// c10Setter: a setter's outcome on a receiver with previous contents must equal its outcome on a fresh receiver of
// the same precision and mode.
func c10Setter(c *hx.Ctx, r *hx.RNG) {
	p := int64(r.Range(1, 60))
	mode := r.Mode()
	var name string
	var apply func(z *decimal.Decimal)
	switch r.Intn(11) {
	case 0:
		v := int64(gen64(r))
		name = fmt.Sprintf("SetInt64(%d)", v)
		apply = func(z *decimal.Decimal) { z.SetInt64(v) }
	case 1:
		v := gen64(r)
		name = fmt.Sprintf("SetUint64(%d)", v)
		apply = func(z *decimal.Decimal) { z.SetUint64(v) }
	case 2:
		b := hx.CoefOf(r.Digits(r.Range(1, 120)))
		if r.Chance(25) { // values for which the digit estimate over-allocates by one word
			b = new(big.Int).Lsh(big.NewInt(1), uint(63*r.Range(1, 4)))
			b.Add(b, big.NewInt(int64(r.Range(0, 1000))))
		}
		if r.Bool() {
			b.Neg(b)
		}
		name = "SetInt(" + b.String() + ")"
		apply = func(z *decimal.Decimal) { z.SetInt(b) }
	case 3:
		q := new(big.Rat).SetFrac(hx.CoefOf(r.Digits(r.Range(1, 60))), hx.CoefOf(r.Digits(r.Range(1, 60))))
		if r.Bool() {
			q.Neg(q)
		}
		name = "SetRat(" + q.String() + ")"
		apply = func(z *decimal.Decimal) { z.SetRat(q) }
	case 4:
		f, _ := genF64(r)
		name = fmt.Sprintf("SetFloat64(%v)", f)
		apply = func(z *decimal.Decimal) { z.SetFloat64(f) }
	case 5:
		bf, _ := genBigFloat(r, "quick")
		name = "SetFloat(" + bf.Text('p', 0) + ")"
		apply = func(z *decimal.Decimal) { z.SetFloat(bf) }
	case 6:
		lit := genLiteral10(r, hx.LimitsFor("quick"))
		txt := lit.under
		if len(txt) > 300 {
			txt = lit.text[:100]
		}
		name = fmt.Sprintf("SetString(%q)", txt)
		apply = func(z *decimal.Decimal) { z.SetString(txt) }
	case 7:
		n := r.Range(0, 8)
		w0 := make([]decimal.Word, n)
		for i := range w0 {
			w0[i] = genWord(r)
		}
		e := r.LeadExp()
		name = fmt.Sprintf("SetBitsExp(%v, %d)", w0, e)
		apply = func(z *decimal.Decimal) { z.SetBitsExp(cloneW(w0), e) }
	case 8:
		sg := r.Bool()
		name = fmt.Sprintf("SetInf(%v)", sg)
		apply = func(z *decimal.Decimal) { z.SetInf(sg) }
	case 9:
		x := genGobValue(r)
		b, _ := x.GobEncode()
		name = fmt.Sprintf("GobDecode(%x)", b)
		apply = func(z *decimal.Decimal) {
			if err := z.GobDecode(b); err != nil {
				panic("GobDecode: " + err.Error())
			}
		}
	default:
		x := genGobValue(r)
		b, _ := x.MarshalText()
		name = fmt.Sprintf("UnmarshalText(%q)", b)
		apply = func(z *decimal.Decimal) {
			if err := z.UnmarshalText(b); err != nil {
				panic("UnmarshalText: " + err.Error())
			}
		}
	}
	what := fmt.Sprintf("%s prec=%d mode=%s", trunc120(name), p, oracle.ModeNames[mode])
	c.Note(what)
	fresh := newRecv(p, mode)
	rpi := hx.Try(func() { apply(fresh) })
	ref := hx.Snapshot(fresh)
	c.Eval(hx.HashStr(what), true, "setter/"+opFamily(name))
	for i := 0; i < 2; i++ {
		prep, kind := dirtyReceiver(r, p, mode, 200)
		z := prep()
		pi := hx.Try(func() { apply(z) })
		c.Classes["dirty/"+kind]++
		c.Count("dirty_receiver_variants", 1)
		if (pi == nil) != (rpi == nil) {
			c.Violate("panic-differs", fmt.Sprintf("%s: fresh receiver panic=%s, receiver %s panic=%s", what, panicStr(rpi), kind, panicStr(pi)), "")
			return
		}
		if pi != nil {
			continue
		}
		if got := hx.Snapshot(z); !sameOutcome(ref, got) {
			c.Violate("outcome-differs", fmt.Sprintf("%s: fresh receiver gives %s, receiver that held %s gives %s", what, ref, kind, got), "")
			return
		}
	}
}

func c10Case(c *hx.Ctx, r *hx.RNG, idx int64) {
	if r.Chance(22) {
		c10Setter(c, r)
		return
	}
	k := genC10(r, c.Tier)
	ar := k.arity()
	parts := partitions2
	switch ar {
	case 2:
		parts = partitions3
	case 3:
		parts = partitions4
	}
	part := parts[r.Intn(len(parts))]
	k.applyShape(part)
	if r.Chance(60) {
		k.spareCap = r.Range(1, int(k.p)/19+8)
		if r.Chance(25) { // as after an earlier long product into the same variable: several times the length
			k.spareCap = 6*(int(k.p)/19+1) + r.Range(4, 12)
		}
	}
	l := hx.LimitsFor(c.Tier)
	if k.costly(l) {
		c.Skip()
		return
	}
	if r.Bool() {
		decimal.VerifPoolFn = poison
		defer func() { decimal.VerifPoolFn = nil }()
	}
	shape := shapeName(part, ar)
	what := k.desc(false) + " shape=" + shape
	c.Note(what)
	if c.Verbose {
		fmt.Println("case:", k.desc(true), "shape", shape)
	}
	// reference: distinct variables, fresh receiver
	k.noSoil = true
	ref, rpi, _, _ := k.execShape(partitions4[0], nil)
	k.noSoil = false
	if rpi != nil && (rpi.Class == "mk" || rpi.Class == "cost") {
		panic(rpi.Val)
	}
	cls := "shape/" + k.op + "/" + shape
	c.Eval(k.key()^hx.HashStr(shape), shape != "distinct", cls)
	if c.WantSample("shape/" + shape) {
		c.Sample("shape/"+shape, what)
	}
	compare := func(variant string, got hx.State, pi *hx.PanicInfo) bool {
		if pi != nil && (pi.Class == "mk" || pi.Class == "cost") {
			panic(pi.Val)
		}
		if (pi == nil) != (rpi == nil) || (pi != nil && pi.Class != rpi.Class) {
			c.Violate("panic-differs", fmt.Sprintf("%s [%s]: reference panic=%v, variant panic=%v", k.desc(true), variant, panicStr(rpi), panicStr(pi)), "")
			return false
		}
		if pi != nil {
			return true // both panicked alike (ErrNaN): the receiver's value is undefined
		}
		if !sameOutcome(ref, got) {
			c.Violate("outcome-differs", fmt.Sprintf("%s [%s]: fresh receiver gives %s, variant gives %s", k.desc(true), variant, ref, got), "")
			return false
		}
		return true
	}
	// (a) the sharing pattern
	if shape != "distinct" {
		got, pi, before, after := k.execShape(part, nil)
		if !compare("aliasing "+shape, got, pi) {
			return
		}
		for role := 1; role <= ar; role++ {
			if before[role] != nil && !hx.SameState(*before[role], *after[role]) {
				c.Violate("operand-modified", fmt.Sprintf("%s [aliasing %s]: operand %d changed", k.desc(true), shape, role), "")
				return
			}
		}
	}
	// (b), (c) receivers with previous contents (only when the receiver is a variable of its own)
	zAlone := true
	for role := 1; role <= ar; role++ {
		if part[role] == part[0] {
			zAlone = false
		}
	}
	if zAlone {
		need := int(k.p)
		for i := 0; i < 2; i++ {
			prep, name := dirtyReceiver(r, k.p, k.mode, need)
			got, pi, _, _ := k.execShape(part, prep)
			c.Classes["dirty/"+name]++
			c.Count("dirty_receiver_variants", 1)
			if !compare("receiver "+name, got, pi) {
				return
			}
		}
	}
}

func panicStr(pi *hx.PanicInfo) string {
	if pi == nil {
		return "none"
	}
	return pi.Class + ":" + pi.Text
}
