package main

import (
	"crypto/sha256"
	"fmt"
	"math/big"

	"github.com/db47h/decimal"

	"verifharness/hx"
	"verifharness/oracle"
)

// C07 — every assembly kernel == its portable twin == the mathematical
// definition (part A: this file); whole-library transcripts are identical under
// every build configuration (part B: prog.go, compared by the driver).

var c07Arenas [3]*hx.Arena
var c07Long [3]*hx.Arena         // 139264 words each: vectors far beyond any block size a kernel may use
var c07FarLo, c07FarHi *hx.Arena // data regions exactly 4 GiB apart (nil when the address space cannot be reserved)

func init() {
	engines["C07"] = &engine{
		N: tierN(300000, 20000000),
		Setup: func(c *hx.Ctx) {
			for i := range c07Arenas {
				c07Arenas[i] = hx.NewArena()
				c07Long[i] = hx.NewArenaPages(272)
			}
			if lo, hi, err := hx.NewFarPair(2); err == nil {
				c07FarLo, c07FarHi = lo, hi
			} else {
				c.Count("far_pair_unavailable", 1)
			}
		},
		Case:   c07Case,
		Finish: c07Transcript,
	}
}

var kernelNames = []string{"mul10WW", "div10WW", "div10W", "add10VV", "sub10VV", "add10VW", "sub10VW", "shl10VU", "shr10VU", "mulAdd10VWW", "addMul10VVW", "div10VWW", "divWVW"}

var bigB = new(big.Int).SetUint64(wb)
var big2p64 = new(big.Int).Lsh(big.NewInt(1), 64)

func bw(x decimal.Word) *big.Int { return new(big.Int).SetUint64(uint64(x)) }

func eqWords(a, b []decimal.Word) bool {
	if len(a) != len(b) {
		return false
	}
	for i := range a {
		if a[i] != b[i] {
			return false
		}
	}
	return true
}

func cloneW(a []decimal.Word) []decimal.Word { return append([]decimal.Word(nil), a...) }

// binWordsToBig interprets w as base-2^64 little-endian digits.
func binWordsToBig(w []decimal.Word) *big.Int {
	r := new(big.Int)
	for i := len(w) - 1; i >= 0; i-- {
		r.Lsh(r, 64)
		r.Add(r, bw(w[i]))
	}
	return r
}

func bigToNWords(x *big.Int, n int, base *big.Int) ([]decimal.Word, *big.Int) {
	out := make([]decimal.Word, n)
	t := new(big.Int).Set(x)
	r := new(big.Int)
	for i := 0; i < n; i++ {
		t.QuoRem(t, base, r)
		out[i] = decimal.Word(r.Uint64())
	}
	return out, t // t = what did not fit (the carry)
}

func c07Case(c *hx.Ctx, r *hx.RNG, idx int64) {
	K := decimal.VerifKernels
	kern := int(idx % int64(len(kernelNames)))
	name := kernelNames[kern]
	n := r.Range(0, 70)
	if r.Chance(30) {
		n = r.Range(0, 9)
	}
	if r.Chance(3) {
		n = r.Range(200, 700) // beyond the statement's 0..70: block-copy paths a kernel may grow for long vectors
	}
	veryLong := kern >= 3 && (idx/int64(len(kernelNames)))%4000 == 7 // a fixed share per kernel: every vector kernel sees lengths beyond 2^16 in every run
	long := kern >= 3 && (r.Intn(3000) == 0 || veryLong)
	if long { // around multiples of 4096 words, and in between
		n = []int{4095, 4096, 4097, 8191, 8192, 8193, 12287, 12288, 12289, 16384, 16385, r.Range(4098, 20000), r.Range(8194, 20000),
			65535, 65536, 65537, 131072, 131073, r.Range(65538, 139000)}[r.Intn(19)] // (also beyond 2^16 and 2^17 words: a wrapper may cut long calls into chunks)
		if veryLong {
			n = []int{65537, 65536 + r.Range(2, 5000), 131072, 131073, r.Range(65538, 139000), r.Range(131074, 139000)}[r.Intn(6)]
		}
	}
	// scalar kernels
	switch name {
	case "mul10WW":
		x, y := genWord(r), genWord(r)
		c.Note(fmt.Sprintf("mul10WW(%d,%d)", x, y))
		a1, a0 := K.Mul10WW(x, y)
		g1, g0 := K.Mul10WWg(x, y)
		p := new(big.Int).Mul(bw(x), bw(y))
		d1, d0 := new(big.Int).QuoRem(p, bigB, new(big.Int))
		c.Eval(r.U64(), true, "kernel/"+name)
		if a1 != g1 || a0 != g0 || bw(a1).Cmp(d1) != 0 || bw(a0).Cmp(d0) != 0 {
			c.Violate("kernel-mismatch", fmt.Sprintf("mul10WW(%d,%d): selected=(%d,%d) portable=(%d,%d) definition=(%v,%v)", x, y, a1, a0, g1, g0, d1, d0), "")
		}
		return
	case "div10WW":
		y := genWord(r)
		if y == 0 {
			y = 1
		}
		x1 := decimal.Word(r.U64() % uint64(y))
		if r.Chance(30) {
			x1 = y - 1
		}
		x0 := genWord(r)
		c.Note(fmt.Sprintf("div10WW(%d,%d,%d)", x1, x0, y))
		aq, ar := K.Div10WW(x1, x0, y)
		gq, gr := K.Div10WWg(x1, x0, y)
		num := new(big.Int).Mul(bw(x1), bigB)
		num.Add(num, bw(x0))
		dq, dr := new(big.Int).QuoRem(num, bw(y), new(big.Int))
		c.Eval(r.U64(), true, "kernel/"+name)
		if aq != gq || ar != gr || bw(aq).Cmp(dq) != 0 || bw(ar).Cmp(dr) != 0 {
			c.Violate("kernel-mismatch", fmt.Sprintf("div10WW(%d,%d,%d): selected=(%d,%d) portable=(%d,%d) definition=(%v,%v)", x1, x0, y, aq, ar, gq, gr, dq, dr), "")
		}
		return
	case "div10W":
		n1 := genWord(r) // < base: the quotient fits a word
		n0 := decimal.Word(r.U64())
		if r.Chance(30) {
			n0 = decimal.Word([]uint64{0, 1, ^uint64(0), wb, wb - 1, 1 << 63}[r.Intn(6)])
		}
		c.Note(fmt.Sprintf("div10W(%d,%d)", n1, n0))
		aq, ar := K.Div10W(n1, n0)
		gq, gr := K.Div10Wg(n1, n0)
		num := new(big.Int).Lsh(bw(n1), 64)
		num.Add(num, bw(n0))
		dq, dr := new(big.Int).QuoRem(num, bigB, new(big.Int))
		c.Eval(r.U64(), true, "kernel/"+name)
		if aq != gq || ar != gr || bw(aq).Cmp(dq) != 0 || bw(ar).Cmp(dr) != 0 {
			c.Violate("kernel-mismatch", fmt.Sprintf("div10W(%d,%d): selected=(%d,%d) portable=(%d,%d) definition=(%v,%v)", n1, n0, aq, ar, gq, gr, dq, dr), "")
		}
		return
	}

	// vector kernels
	binary := name == "divWVW"
	gen := func(k int) []decimal.Word {
		w := make([]decimal.Word, k)
		allNines := r.Chance(12)
		allZero := r.Chance(6)
		for i := range w {
			switch {
			case binary:
				w[i] = decimal.Word(r.U64())
				if r.Chance(20) {
					w[i] = decimal.Word([]uint64{0, ^uint64(0), 1 << 63, 1}[r.Intn(4)])
				}
			case allNines:
				w[i] = decimal.Word(wb - 1)
			case allZero:
				w[i] = 0
			default:
				w[i] = genWord(r)
			}
		}
		return w
	}
	extra := 0 // x (and y) may be longer than z, as in the u[j:] arguments of the add/sub kernels (the other kernels are only called with equal lengths)
	if r.Chance(20) && (name == "add10VV" || name == "sub10VV" || name == "add10VW" || name == "sub10VW") {
		extra = r.Range(1, 5)
	}
	xin := gen(n + extra)
	yin := gen(n + extra)
	zin := gen(n)
	ripple := n > 1 && (name == "add10VV" || name == "sub10VV" || name == "add10VW" || name == "sub10VW") && r.Chance(map[bool]int{false: 12, true: 70}[long])
	if ripple {
		// a carry (borrow) born at word j that travels through every word above it
		j := r.Intn(n)
		if r.Chance(40) {
			j = 0
		}
		for i := range xin {
			switch name {
			case "add10VV", "add10VW":
				xin[i] = decimal.Word(wb - 1)
			default:
				xin[i] = 0
			}
			yin[i] = 0
		}
		yin[j] = 1
		if name == "sub10VV" || name == "sub10VW" { // x = B^k, minus 1 at word j
			if k := r.Range(j, n+extra-1); r.Chance(70) {
				xin[k] = decimal.Word(r.Range(1, 9))
			}
		}
		if j > 0 && (name == "add10VW" || name == "sub10VW") { // the single word enters at word 0
			for i := 0; i < j; i++ {
				if name == "add10VW" {
					xin[i] = decimal.Word(wb - 1)
				}
			}
		}
	}
	var w1, w2 decimal.Word
	var s uint
	twoSrc := name == "add10VV" || name == "sub10VV"
	// shape: 0 distinct, 1 z=x (in place), 2 z=y, 3 z=x=y, 4 shifted overlap (shl: z above x; shr: z below x)
	shape := 0
	switch k := r.Intn(10); {
	case k < 4:
		shape = 1
	case k < 5 && twoSrc:
		shape = 2
	case k < 6 && twoSrc:
		shape = 3
	case k < 7 && (name == "shl10VU" || name == "shr10VU"):
		shape = 4
	}
	switch name {
	case "add10VW", "sub10VW":
		w1 = genWord(r)
		if r.Chance(50) {
			w1 = decimal.Word(r.Intn(2))
		}
	case "shl10VU", "shr10VU":
		s = uint(r.Intn(19))
	case "mulAdd10VWW":
		w1, w2 = genWord(r), genWord(r)
	case "addMul10VVW":
		w1 = genWord(r)
		if shape != 0 {
			shape = 0 // z is an input as well: the library never overlaps it with x
		}
	case "div10VWW":
		w1 = genWord(r)
		if w1 == 0 {
			w1 = 1
		}
		w2 = decimal.Word(r.U64() % uint64(w1)) // xn < y
	case "divWVW":
		w1 = decimal.Word(r.U64() | 1)
		if r.Chance(30) {
			w1 = decimal.Word(wb)
		}
		w2 = decimal.Word(r.U64() % uint64(w1))
	}
	if ripple && (name == "add10VW" || name == "sub10VW") {
		w1 = 1
	}
	shift := r.Range(1, 6)
	call := func(twin bool, z, x, y []decimal.Word) decimal.Word {
		switch name {
		case "add10VV":
			if twin {
				return K.Add10VVg(z, x, y)
			}
			return K.Add10VV(z, x, y)
		case "sub10VV":
			if twin {
				return K.Sub10VVg(z, x, y)
			}
			return K.Sub10VV(z, x, y)
		case "add10VW":
			if twin {
				return K.Add10VWg(z, x, w1)
			}
			return K.Add10VW(z, x, w1)
		case "sub10VW":
			if twin {
				return K.Sub10VWg(z, x, w1)
			}
			return K.Sub10VW(z, x, w1)
		case "shl10VU":
			if twin {
				return K.Shl10VUg(z, x, s)
			}
			return K.Shl10VU(z, x, s)
		case "shr10VU":
			if twin {
				return K.Shr10VUg(z, x, s)
			}
			return K.Shr10VU(z, x, s)
		case "mulAdd10VWW":
			if twin {
				return K.MulAdd10VWWg(z, x, w1, w2)
			}
			return K.MulAdd10VWW(z, x, w1, w2)
		case "addMul10VVW":
			if twin {
				return K.AddMul10VVWg(z, x, w1)
			}
			return K.AddMul10VVW(z, x, w1)
		case "div10VWW":
			if twin {
				return K.Div10VWWg(z, x, w1, w2)
			}
			return K.Div10VWW(z, x, w1, w2)
		case "divWVW":
			if twin {
				return K.DivWVWg(z, w2, x, w1)
			}
			return K.DivWVW(z, w2, x, w1)
		}
		panic("c07: kernel " + name)
	}
	// lay the operands out: place(i, len) yields a buffer from arena i (guarded) or from the heap (twin)
	layout := func(place func(i, n int) []decimal.Word) (z, x, y []decimal.Word) {
		switch shape {
		case 1:
			x = place(0, n+extra)
			copy(x, xin)
			z = x[:n]
			y = place(1, n+extra)
			copy(y, yin)
		case 2:
			y = place(0, n+extra)
			copy(y, yin)
			z = y[:n]
			x = place(1, n+extra)
			copy(x, xin)
		case 3:
			x = place(0, n+extra)
			copy(x, xin)
			y = x
			z = x[:n]
		case 4:
			buf := place(0, n+shift)
			for i := range buf {
				buf[i] = decimal.Word(wb - 1)
			}
			if name == "shl10VU" {
				x = buf[:n]
				z = buf[shift : shift+n]
			} else {
				z = buf[:n]
				x = buf[shift : shift+n]
			}
			copy(x, xin[:n])
			y = place(1, n)
		default:
			z = place(0, n)
			copy(z, zin)
			x = place(1, n+extra)
			copy(x, xin)
			y = place(2, n+extra)
			copy(y, yin)
		}
		return
	}
	// effective inputs as the kernel sees them (after the layout's copies)
	where := [3]int{r.Intn(3), r.Intn(3), r.Intn(3)}
	var placedN [3]int
	arenas := c07Arenas
	far := false
	switch {
	case long:
		arenas = c07Long
	case c07FarLo != nil && r.Chance(6):
		// two of the three buffers start at addresses that agree in their low 32 bits
		far = true
		pair := [][2]int{{0, 1}, {1, 0}, {0, 2}, {2, 0}, {1, 2}}[r.Intn(5)]
		arenas[pair[0]], arenas[pair[1]] = c07FarHi, c07FarLo
		w := r.Intn(2) * 1 // flush against the lower fence, or in the middle: the same offset in both arenas
		if w == 0 {
			w = 2
		}
		if extra != 0 && w == 2 {
			w = 1 // (the middle placement centres a buffer on its own length)
		}
		where[pair[0]], where[pair[1]] = w, w
	}
	za, xa, ya := layout(func(i, k int) []decimal.Word { placedN[i] = k; return arenas[i].Place(k, where[i]) })
	xeff, yeff, zeff := cloneW(xa), cloneW(ya), cloneW(za)
	desc := fmt.Sprintf("%s n=%d extra=%d shape=%d where=%v far=%v ripple=%v w1=%d w2=%d s=%d x=%v y=%v z0=%v", name, n, extra, shape, where, far, ripple, w1, w2, s, xeff, yeff, zeff)
	if n > 800 {
		desc = fmt.Sprintf("%s n=%d extra=%d shape=%d where=%v ripple=%v w1=%d w2=%d s=%d (vectors of %d words: replay the case to see them)", name, n, extra, shape, where, ripple, w1, w2, s, n)
	}
	c.Note(desc)
	var ca decimal.Word
	// sources are read: one time in six the arenas that only hold sources are read-only during the call
	var roArenas []*hx.Arena
	if !far && r.Chance(17) {
		switch shape {
		case 0:
			roArenas = []*hx.Arena{arenas[1], arenas[2]}
		case 1:
			roArenas = []*hx.Arena{arenas[1]} // z = x in arena 0; y in arena 1
		case 2:
			roArenas = []*hx.Arena{arenas[1]} // z = y in arena 0; x in arena 1
		}
		for _, a := range roArenas {
			a.SetReadOnly(true)
		}
		c.Classes["read-only-sources"]++
	}
	pi := hx.Try(func() { ca = call(false, za, xa, ya) })
	for _, a := range roArenas {
		a.SetReadOnly(false)
	}
	cls := "kernel/" + name
	c.Eval(r.U64(), n > 0, cls)
	c.Classes[fmt.Sprintf("shape/%d", shape)]++
	if long {
		c.Classes["long-vector"]++
		if n > 65536 {
			c.Classes["long-vector-beyond-2^16-words/"+name]++
		}
	}
	if far {
		c.Classes["addresses-4GiB-apart"]++
	}
	if ripple {
		c.Classes["carry-ripple"]++
	}
	c.Classes[fmt.Sprintf("len%%4/%d", n%4)]++
	if c.WantSample(cls) {
		c.Sample(cls, desc)
	}
	if pi != nil {
		c.Violate("kernel-fault", fmt.Sprintf("%s: %s panic %q (guard page hit or fault inside the kernel)", desc, pi.Class, pi.Text), "")
		return
	}
	za1 := cloneW(za)
	for i := 0; i < 3; i++ {
		if where[i] == 2 && placedN[i] > 0 && !arenas[i].CanariesIntact(placedN[i]) {
			c.Violate("canary-overwritten", fmt.Sprintf("%s: a word next to operand buffer %d was overwritten", desc, i), "")
			return
		}
	}
	// sources unchanged unless they overlap the destination
	if shape == 0 || shape == 2 {
		if !eqWords(xa, xeff) {
			c.Violate("source-modified", desc+": x changed", "")
			return
		}
	}
	if shape == 0 || shape == 1 {
		if !eqWords(ya, yeff) {
			c.Violate("source-modified", desc+": y changed", "")
			return
		}
	}
	if extra > 0 && shape >= 1 && shape <= 3 { // words of the longer source beyond len(z) must not be written
		src := xa
		if shape == 2 {
			src = ya
		}
		orig := xeff
		if shape == 2 {
			orig = yeff
		}
		if !eqWords(src[n:], orig[n:]) {
			c.Violate("write-beyond-destination", desc+": words beyond len(z) of the in-place operand changed", "")
			return
		}
	}
	// portable twin on ordinary memory, same sharing pattern
	zg, xg, yg := layout(func(i, k int) []decimal.Word { return make([]decimal.Word, k) })
	cg := call(true, zg, xg, yg)
	if n > 20000 {
		// beyond 20 000 words the definition (two quadratic radix conversions per case) is not evaluated: the selected
		// kernel is compared with its portable twin, which is compared with the definition at every length below
		if !eqWords(za1, zg) || ca != cg {
			c.Violate("kernel-twin-mismatch", fmt.Sprintf("%s: selected z=%s c=%d, portable z=%s c=%d", desc, showDiff(za1, zg), ca, showDiff(zg, za1), cg), "")
		}
		c.Count("long_vectors_beyond_20000_words_twin_only", 1)
		return
	}
	// mathematical definition
	var zd []decimal.Word
	var cd *big.Int
	X := wordsToBig(xeff[:n])
	Bn := new(big.Int).Exp(bigB, big.NewInt(int64(n)), nil)
	switch name {
	case "add10VV":
		zd, cd = bigToNWords(new(big.Int).Add(X, wordsToBig(yeff[:n])), n, bigB)
	case "sub10VV":
		d := new(big.Int).Sub(X, wordsToBig(yeff[:n]))
		cd = big.NewInt(0)
		if d.Sign() < 0 {
			d.Add(d, Bn)
			cd = big.NewInt(1)
		}
		zd, _ = bigToNWords(d, n, bigB)
	case "add10VW":
		if n == 0 {
			zd, cd = nil, bw(w1)
		} else {
			zd, cd = bigToNWords(new(big.Int).Add(X, bw(w1)), n, bigB)
		}
	case "sub10VW":
		if n == 0 {
			zd, cd = nil, bw(w1)
		} else {
			d := new(big.Int).Sub(X, bw(w1))
			cd = big.NewInt(0)
			if d.Sign() < 0 {
				d.Add(d, Bn)
				cd = big.NewInt(1)
			}
			zd, _ = bigToNWords(d, n, bigB)
		}
	case "shl10VU":
		zd, cd = bigToNWords(new(big.Int).Mul(X, oracle.Pow10(int64(s))), n, bigB)
	case "shr10VU":
		q, rem := new(big.Int).QuoRem(X, oracle.Pow10(int64(s)), new(big.Int))
		zd, _ = bigToNWords(q, n, bigB)
		cd = rem.Mul(rem, oracle.Pow10(int64(19-s)))
		if s == 0 || n == 0 {
			cd = big.NewInt(0)
		}
	case "mulAdd10VWW":
		v := new(big.Int).Mul(X, bw(w1))
		v.Add(v, bw(w2))
		zd, cd = bigToNWords(v, n, bigB)
	case "addMul10VVW":
		v := new(big.Int).Mul(X, bw(w1))
		v.Add(v, wordsToBig(zeff))
		zd, cd = bigToNWords(v, n, bigB)
	case "div10VWW":
		v := new(big.Int).Mul(bw(w2), Bn)
		v.Add(v, X)
		q, rem := new(big.Int).QuoRem(v, bw(w1), new(big.Int))
		zd, _ = bigToNWords(q, n, bigB)
		cd = rem
	case "divWVW":
		v := new(big.Int).Lsh(bw(w2), uint(64*n))
		v.Add(v, binWordsToBig(xeff[:n]))
		q, rem := new(big.Int).QuoRem(v, bw(w1), new(big.Int))
		zd, _ = bigToNWords(q, n, big2p64)
		cd = rem
	}
	if !eqWords(za1, zg) || ca != cg {
		c.Violate("kernel-twin-mismatch", fmt.Sprintf("%s: selected z=%s c=%d, portable z=%s c=%d", desc, showDiff(za1, zg), ca, showDiff(zg, za1), cg), "")
		return
	}
	if !eqWords(za1, zd) || bw(ca).Cmp(cd) != 0 {
		c.Violate("kernel-definition-mismatch", fmt.Sprintf("%s: kernels z=%s c=%d, definition z=%s c=%v", desc, showDiff(za1, zd), ca, showDiff(zd, za1), cd), "")
		return
	}
	if !binary {
		if i := wordsBad(za1); i >= 0 {
			c.Violate("word-not-below-base", fmt.Sprintf("%s: output word %d = %d", desc, i, za1[i]), "")
		}
	}
}

// ------------------------------------------------ part B: transcripts

// c07Transcript runs this shard's deterministic public-API program and records
// chunk digests; the driver demands identical digests from every build variant.
func c07Transcript(c *hx.Ctx) {
	steps := 1250
	if c.Tier == "thorough" {
		steps = 12500
	}
	vm := newProgVM(hx.NewRNG(c.Seed, "C07-transcript", int64(c.Shard)), c.Tier)
	vm.note = c.Note
	h := sha256.New()
	if c.Digests == nil {
		c.Digests = map[string]string{}
	}
	dump := c.DumpChunk
	for i := 0; i < steps; i++ {
		c.Begin(int64(1000000000+i), "transcript step")
		st := vm.step()
		line := st.canonical(vm)
		h.Write([]byte(line))
		h.Write([]byte{'\n'})
		if dump >= 0 && i/250 == dump {
			fmt.Printf("T %06d %s\n", i, line)
		}
		if (i+1)%250 == 0 {
			c.Digests[fmt.Sprintf("shard%02d/chunk%03d", c.Shard, i/250)] = fmt.Sprintf("%x", h.Sum(nil)[:12])
		}
	}
	c.Count("transcript_steps", int64(steps))
	c.Count("transcript_panics_ErrNaN", int64(vm.nNaN))
}

// showDiff prints a (whole when short; for long vectors the words around the first difference with b).
func showDiff(a, b []decimal.Word) string {
	if len(a) <= 800 {
		return fmt.Sprint(a)
	}
	i := 0
	for i < len(a) && i < len(b) && a[i] == b[i] {
		i++
	}
	lo, hi := i-2, i+3
	if lo < 0 {
		lo = 0
	}
	if hi > len(a) {
		hi = len(a)
	}
	return fmt.Sprintf("(%d words; words %d..%d = %v)", len(a), lo, hi-1, a[lo:hi])
}
