//go:build decimal_pure_go

package main

// portableKernels: the library under test was built with its portable (pure Go) decimal kernels.
const portableKernels = true
