package main

import (
	"fmt"

	"verifharness/hx"
	"verifharness/oracle"
)

// C03 — FMA is x*y+u with a single rounding, IEEE sign of an exact zero sum,
// same result whatever the receiver shares with x, y, u.

func init() {
	engines["C03"] = &engine{N: tierN(130000, 5000000), Setup: selfTest, Case: c03Case}
}

func c03Case(c *hx.Ctx, r *hx.RNG, idx int64) {
	l := hx.LimitsFor(c.Tier)
	k := genFMA(r, l)
	part := partitions4[0]
	if r.Chance(55) {
		part = partitions4[r.Intn(len(partitions4))]
	}
	k.applyShape(part)
	shape := shapeName(part, 3)
	if c.Verbose {
		fmt.Println("case:", k.desc(true), "shape:", shape)
	}
	cls := "FMA/" + k.class
	if k.costly(l) {
		c.Skip()
		return
	}
	got, pi, before, after := k.execShape(part, nil)
	kf := fmaKnownFinding(k, &got, pi) // D15, and only when the outcome is the one the finding describes
	o := k.outcome()
	if pi != nil {
		if pi.Class == "mk" || pi.Class == "cost" {
			panic(pi.Val)
		}
		c.Eval(k.key(), true, cls)
		c.Classes["shape/"+shape]++
		if pi.IsNaN && o.NaN {
			return // the invalid operation panicked as it must (C04 looks at the receiver)
		}
		c.Violate("panic", fmt.Sprintf("%s shape %s: %s panic %q at %s", k.desc(true), shape, pi.Class, pi.Text, pi.Stack), kf)
		return
	}
	if o.NaN {
		c.Eval(k.key(), true, cls)
		c.Violate("missing-ErrNaN", fmt.Sprintf("%s shape %s: invalid operation did not panic, stored %s", k.desc(true), shape, got), kf)
		return
	}
	v := k.judge(got)
	// non-trivial: the single rounding gives something else than Mul followed by Add would
	nontrivial := false
	if !o.Special && k.x.Form == oracle.Finite && k.y.Form == oracle.Finite && k.u.Form == oracle.Finite {
		m := oracle.Mul(k.x, k.y).Expect(k.p, k.mode)
		two := oracle.Add(m.V, k.u, k.mode).Expect(k.p, k.mode)
		nontrivial = !oracle.Equal(two.V, v.exp.V) || two.Acc != v.exp.Acc
	}
	c.Eval(k.key()^hx.HashStr(shape), nontrivial, cls)
	c.Classes["shape/"+shape]++
	if nontrivial {
		c.Count("fma_differs_from_mul_then_add", 1)
	}
	if c.Verbose {
		fmt.Printf("  stored  : %s\n  model #1: %s acc=%d\n  model #2: value=%q acc=%q\n", got, v.exp.V.Full(), v.exp.Acc, v.m2Value, v.m2Acc)
	}
	if c.WantSample(cls) {
		c.Sample(cls, fmt.Sprintf("%s shape=%s -> %s", k.desc(false), shape, got))
	}
	switch {
	case v.m1Value && v.m2Value == "":
	case !v.m1Value && v.m2Value != "":
		c.Violate("wrong-value", fmt.Sprintf("%s shape %s: stored %s, x*y+u rounded once is %s; definition check: %s", k.desc(true), shape, got.V.Full(), v.exp.V.Full(), v.m2Value), kf)
		return
	default:
		c.Inconclusive(fmt.Sprintf("oracle self-check: models disagree on %s: stored %s, model #1 wants %s (equal=%v), model #2 says %q", k.desc(true), got.V.Full(), v.exp.V.Full(), v.m1Value, v.m2Value))
		return
	}
	if v.m2Acc != "" {
		if !v.m1AccOK {
			c.Violate("wrong-acc", fmt.Sprintf("%s shape %s: stored %s with acc=%d: %s", k.desc(true), shape, got.V.Full(), got.Acc, v.m2Acc), kf)
		} else {
			c.Inconclusive("oracle self-check: accuracy models disagree on " + k.desc(true))
		}
		return
	}
	if uint(k.p) != got.Prec || k.mode != got.Mode {
		c.Violate("attrs", fmt.Sprintf("%s shape %s: receiver precision/mode changed to %d/%d", k.desc(true), shape, got.Prec, got.Mode), "")
	}
	for role := 1; role <= 3; role++ {
		if before[role] != nil && !hx.SameState(*before[role], *after[role]) {
			c.Violate("operand-modified", fmt.Sprintf("%s shape %s: operand %d changed from %s to %s", k.desc(true), shape, role, *before[role], *after[role]), "")
		}
	}
}
