// vworker executes one shard of one property's case list against the library
// built from /repo's working tree and reports a JSON summary. Cases are a pure
// function of (seed, property, case index); `-replay idx` re-executes one of
// them verbosely.
package main

import (
	"flag"
	"fmt"
	"os"
	"runtime/debug"
	"sort"

	"verifharness/hx"
)

// engine describes how a property is explored.
type engine struct {
	// N is the number of cases of a tier (a count, never a time budget).
	N func(tier string) int64
	// Setup runs once per shard before the cases (self-tests, tables).
	Setup func(c *hx.Ctx)
	// Case executes case idx.
	Case func(c *hx.Ctx, r *hx.RNG, idx int64)
	// Finish runs once per shard after the cases (floors on what was observed).
	Finish func(c *hx.Ctx)
	// Whole, if set, replaces the per-case loop (engines that are not case lists).
	Whole func(c *hx.Ctx)
}

var engines = map[string]*engine{}

func tierN(quick, thorough int64) func(string) int64 {
	return func(t string) int64 {
		if t == "thorough" {
			return thorough
		}
		return quick
	}
}

func main() {
	prop := flag.String("prop", "", "property id")
	tier := flag.String("tier", "quick", "quick|thorough")
	seed := flag.Int64("seed", 1, "VERIF_SEED")
	shard := flag.Int("shard", 0, "shard index")
	nshards := flag.Int("nshards", 1, "number of shards")
	out := flag.String("out", "", "output base path (summary .json, .hashes, .last)")
	replay := flag.Int64("replay", -1, "re-execute this single case verbosely")
	list := flag.Bool("list", false, "list engines")
	dumpChunk := flag.Int("dumpchunk", -1, "print the steps of this transcript chunk (C07)")
	transcriptOnly := flag.Bool("transcriptonly", false, "run only the Finish stage (C07 transcript)")
	flag.Parse()
	debug.SetPanicOnFault(true)

	if *list {
		var ks []string
		for k := range engines {
			ks = append(ks, k)
		}
		sort.Strings(ks)
		for _, k := range ks {
			fmt.Println(k, engines[k].N("quick"), engines[k].N("thorough"))
		}
		return
	}
	e := engines[*prop]
	if e == nil {
		fmt.Fprintln(os.Stderr, "unknown property", *prop)
		os.Exit(3)
	}
	c := hx.NewCtx(*prop, *tier, *seed, *shard, *nshards, *out)
	c.DumpChunk = *dumpChunk
	if *transcriptOnly {
		if e.Setup != nil {
			e.Setup(c)
		}
		e.Finish(c)
		return
	}
	if *replay >= 0 {
		c.Verbose = true
		c.NShards = 1
		if e.Setup != nil {
			e.Setup(c)
		}
		fmt.Printf("replaying %s tier=%s seed=%d case=%d\n", *prop, *tier, *seed, *replay)
		runCase(c, e, *replay)
		if c.NViol > 0 {
			fmt.Printf("REPLAY: %d violation(s) reproduced\n", c.NViol)
			os.Exit(1)
		}
		if len(c.Inconcl) > 0 {
			fmt.Println("REPLAY: inconclusive:", c.Inconcl)
			os.Exit(2)
		}
		fmt.Println("REPLAY: case passes on this tree")
		return
	}
	if e.Setup != nil {
		e.Setup(c)
	}
	if e.Whole != nil {
		e.Whole(c)
	} else {
		n := e.N(*tier)
		for idx := int64(*shard); idx < n; idx += int64(*nshards) {
			runCase(c, e, idx)
		}
	}
	if e.Finish != nil {
		e.Finish(c)
	}
	c.Finish(*out)
}

func runCase(c *hx.Ctx, e *engine, idx int64) {
	c.Begin(idx, "")
	r := hx.NewRNG(c.Seed, c.Prop, idx)
	pi := hx.Try(func() { e.Case(c, r, idx) })
	if pi == nil {
		return
	}
	switch pi.Class {
	case "mk":
		c.Inconclusive(pi.Text)
	case "cost":
		c.Skip()
	default:
		// a panic that the engine did not expect and classify itself
		c.Violate("unexpected-panic", fmt.Sprintf("%s panic %q at %s", pi.Class, pi.Text, pi.Stack), "")
	}
}
