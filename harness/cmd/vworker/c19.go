package main

import (
	"errors"
	"fmt"
	"math"
	"math/big"

	"github.com/db47h/decimal"
	dctx "github.com/db47h/decimal/context"

	"verifharness/hx"
	"verifharness/oracle"
)

// C19 — Context operations round to the context and latch the first NaN; a
// sequential model {prec, mode, err} runs in lock-step with the real Context.

func init() {
	engines["C19"] = &engine{N: tierN(20000, 2000000), Setup: selfTest, Case: c19Case}
}

type ctxModel struct {
	prec     int64
	mode     int
	latched  bool
	firstMsg string // message of the ErrNaN that latched the model: the first one must be the one Err() hands out
}

// nanMessage runs the invalid operation directly on the library (outside any context) and returns its ErrNaN's text.
func nanMessage(f func()) string {
	if pi := hx.Try(f); pi != nil && pi.IsNaN {
		return pi.Text
	}
	return "<no ErrNaN>"
}

func genCtxVal(r *hx.RNG) oracle.Val {
	switch r.Intn(10) {
	case 0:
		return oracle.Val{Form: oracle.Zero, Neg: r.Bool()}
	case 1:
		return oracle.Val{Form: oracle.Inf, Neg: r.Bool()}
	}
	return r.Finite(r.Range(1, 60), int64(r.Range(-30, 30)))
}

var errInjected = errors.New("injected failure (not an ErrNaN)")

func c19Case(c *hx.Ctx, r *hx.RNG, idx int64) {
	m := ctxModel{prec: int64(r.Range(1, 60)), mode: r.Mode()}
	initPrec := uint(m.prec)
	if r.Chance(10) {
		initPrec, m.prec = 0, 34
	}
	cx := dctx.New(initPrec, decimal.RoundingMode(m.mode))
	defer func() { decimal.VerifHitFn = nil }()
	steps := 30
	var trace []string
	note := func(s string) {
		trace = append(trace, s)
		if len(trace) > 8 {
			trace = trace[1:]
		}
		c.Note(fmt.Sprintf("context step: %s (model prec=%d mode=%d latched=%v)", s, m.prec, m.mode, m.latched))
		if c.Verbose {
			fmt.Printf("step: %s (model prec=%d mode=%d latched=%v)\n", s, m.prec, m.mode, m.latched)
		}
	}
	bad := func(kind, f string, a ...interface{}) {
		c.Violate(kind, fmt.Sprintf(f, a...)+fmt.Sprintf("; context model prec=%d mode=%s latched=%v; last steps: %v", m.prec, oracle.ModeNames[m.mode], m.latched, trace), "")
	}
	for i := 0; i < steps; i++ {
		op := r.Intn(100)
		switch {
		case op < 58: // arithmetic, unary, Set
			k := &opCase{mode: m.mode, p: m.prec}
			k.op = []string{"Add", "Sub", "Mul", "Quo", "FMA", "Sqrt", "Neg", "Abs", "Set"}[r.Intn(9)]
			k.x, k.y, k.u = genCtxVal(r), genCtxVal(r), genCtxVal(r)
			if k.op == "Sqrt" && r.Chance(75) {
				k.x.Neg = false
			}
			if k.op == "FMA" && k.x.Form == oracle.Finite && k.y.Form == oracle.Finite && k.u.Form == oracle.Finite {
				k.u.Exp = k.x.LeadExp() + k.y.LeadExp() + int64(r.Range(-40, 40)) - oracle.Digits(k.u.Coef)
			}
			if k.op == "FMA" && r.Chance(4) {
				// a finite product beyond the exponent range (known finding D15 lives here: whatever else happens in this
				// class is not that finding), with an infinite addend
				le1 := int64(r.Range(900000000, 1300000000))
				le2 := int64(r.Range(1300000000, 2100000000))
				if r.Bool() {
					le1, le2 = -le1, -le2
				}
				k.x, k.y = r.Finite(r.Range(1, 30), le1), r.Finite(r.Range(1, 30), le2)
				// (an infinite addend: the exact sum with a finite one is not materialised here; C02 and C03 hold those)
				if r.Chance(70) {
					k.u = oracle.Val{Form: oracle.Inf, Neg: k.x.Neg == k.y.Neg} // opposite to the product's sign
				} else {
					k.u = oracle.Val{Form: oracle.Inf, Neg: k.x.Neg != k.y.Neg}
				}
			}
			alias := r.Chance(12) // receiver is also an operand: value not judged (documented caveat), latch behaviour still is
			if alias && m.prec >= 1 && m.prec <= 150 && r.Chance(30) && k.op != "Set" && k.op != "Neg" && k.op != "Abs" && k.op != "Sqrt" {
				// the aliased receiver changes class when the context rounds it: all nines in the top decade, more of them
				// than the context keeps - a finite operand on entry, an infinity (in the modes that round up) once the
				// context has prepared the receiver; the other operand makes that a NaN
				n := int(m.prec) + r.Range(1, 12)
				k.x = oracle.Val{Form: oracle.Finite, Neg: r.Bool(), Coef: new(big.Int).Sub(oracle.Pow10(int64(n)), big.NewInt(1)), Exp: oracle.MaxExp - int64(n)}
				switch k.op {
				case "Add":
					k.y = oracle.Val{Form: oracle.Inf, Neg: !k.x.Neg}
				case "Sub":
					k.y = oracle.Val{Form: oracle.Inf, Neg: k.x.Neg}
				case "Mul":
					k.y = oracle.Val{Form: oracle.Zero, Neg: r.Bool()}
				case "Quo":
					k.y = oracle.Val{Form: oracle.Inf, Neg: r.Bool()}
				case "FMA":
					k.y, k.u = oracle.Val{Form: oracle.Zero, Neg: r.Bool()}, r.Finite(3, 0)
				}
			}
			k.attrs(r)
			k.p = m.prec // (attrs may pick a precision of its own for the receiver: here the context decides)
			X := hx.Mk(k.x, opPrec(k.x, k.xp), k.xm)
			Y := hx.Mk(k.y, opPrec(k.y, k.yp), k.ym)
			U := hx.Mk(k.u, opPrec(k.u, k.up), k.um)
			// the receiver has attributes of its own, different from the context's, and old contents
			z := newRecv(int64(r.Range(0, 80)), r.Mode())
			if r.Bool() {
				z.SetInt64(int64(r.U64() >> 20))
			}
			if alias {
				z = X
				// the context rounds its receiver to its own precision and mode before the operation: the operand the
				// operation sees is the rounded one (an infinity if the rounding carries out of the range)
				if k.x.Form == oracle.Finite && m.prec >= 1 {
					k.x = oracle.Ident(k.x).Expect(m.prec, m.mode).V
				}
			}
			pre := hx.RawOf(z)
			inject := 0
			if !m.latched && !alias && r.Chance(6) {
				inject = 1 + r.Intn(3) // 1 nil operand, 2 error value from inside round, 3 string from inside round
			}
			note(fmt.Sprintf("%s inject=%d alias=%v", k.desc(false), inject, alias))
			var ret *decimal.Decimal
			call := func() {
				xa := X
				if inject == 1 {
					xa = nil
				}
				switch k.op {
				case "Add":
					ret = cx.Add(z, xa, Y)
				case "Sub":
					ret = cx.Sub(z, xa, Y)
				case "Mul":
					ret = cx.Mul(z, xa, Y)
				case "Quo":
					ret = cx.Quo(z, xa, Y)
				case "FMA":
					ret = cx.FMA(z, xa, Y, U)
				case "Sqrt":
					ret = cx.Sqrt(z, xa)
				case "Neg":
					ret = cx.Neg(z, xa)
				case "Abs":
					ret = cx.Abs(z, xa)
				case "Set":
					ret = cx.Set(z, xa)
				}
			}
			fired := false
			if inject >= 2 {
				n := 0
				decimal.VerifHitFn = func(site int) {
					if site == decimal.VerifSiteRound {
						n++
						if n == 1 {
							fired = true
							if inject == 2 {
								panic(errInjected)
							}
							panic("injected string panic")
						}
					}
				}
			}
			pi := hx.Try(call)
			decimal.VerifHitFn = nil
			cls := "op/" + k.op
			c.Eval(k.key()^uint64(i), true, cls)
			switch {
			case m.latched:
				c.Count("ops_while_latched", 1)
				if pi != nil {
					bad("panic-while-latched", "%s panicked (%s %q) although the context is latched and must be a no-op", k.op, pi.Class, pi.Text)
					return
				}
				if ret != z {
					bad("wrong-return", "%s on a latched context did not return its receiver", k.op)
					return
				}
				if !pre.Same(hx.RawOf(z)) {
					bad("latched-context-wrote", "%s on a latched context changed the receiver from %s to %s", k.op, pre, hx.RawOf(z))
					return
				}
			case inject == 1 || fired:
				// a panic that is not an ErrNaN must escape and must not latch the context
				{
					c.Count("injected_panics", 1)
					if pi == nil {
						if e := cx.Err(); e != nil {
							bad("foreign-panic-swallowed", "%s: a non-ErrNaN panic (injection %d) was swallowed and recorded as the context's error: %v", k.op, inject, e)
						} else {
							bad("foreign-panic-swallowed", "%s: a non-ErrNaN panic (injection %d) was swallowed", k.op, inject)
						}
						return
					}
					if pi.IsNaN {
						bad("foreign-panic-changed", "%s: injected panic surfaced as ErrNaN", k.op)
						return
					}
					if e := cx.Err(); e != nil {
						bad("foreign-panic-latched", "%s: a non-ErrNaN panic escaped but also latched the context (%v)", k.op, e)
						return
					}
				}
			default:
				if inject != 0 {
					c.Count("injection_site_not_reached", 1) // no rounding happened: an ordinary call
				}
				o := k.outcome()
				if nan, _, ok := fmaKnownOutcome(k); ok && nan && pi == nil {
					// known finding D15 in a context: the saturated product and the opposite infinity make FMA panic with an
					// ErrNaN that the context records although x*y+u is an infinity. Looking (Err) is the only way to tell; the
					// sequence ends here either way.
					if _, isNaN := cx.Err().(decimal.ErrNaN); isNaN {
						c.Violate("spurious-ErrNaN", fmt.Sprintf("%s: the context recorded an ErrNaN although the result is an infinity", k.desc(true)), "fma_product_exponent_out_of_range")
						return
					}
				}
				if pi != nil {
					if pi.Class == "mk" || pi.Class == "cost" {
						panic(pi.Val)
					}
					// (never the known finding D15: there the context records the ErrNaN, nothing escapes)
					c.Violate("panic-escaped", fmt.Sprintf("%s: %s panic %q escaped the context; last steps %v", k.desc(true), pi.Class, pi.Text, trace), "")
					return
				}
				if ret != z {
					bad("wrong-return", "%s did not return its receiver", k.op)
					return
				}
				if o.NaN {
					m.latched = true
					m.firstMsg = nanMessage(func() {
						// on fresh copies: the context call may have overwritten an operand that was also the receiver
						X, Y, U := hx.Mk(k.x, digitsOf(k.x), 0), hx.Mk(k.y, digitsOf(k.y), 0), hx.Mk(k.u, digitsOf(k.u), 0)
						t := new(decimal.Decimal).SetPrec(uint(m.prec))
						switch k.op {
						case "Add":
							t.Add(X, Y)
						case "Sub":
							t.Sub(X, Y)
						case "Mul":
							t.Mul(X, Y)
						case "Quo":
							t.Quo(X, Y)
						case "FMA":
							t.FMA(X, Y, U)
						case "Sqrt":
							t.Sqrt(X)
						}
					})
					c.Count("nan_latched", 1)
					break
				}
				if alias {
					c.Count("aliased_receiver_not_judged", 1)
					break
				}
				got := hx.Snapshot(z)
				if int64(got.Prec) != m.prec || got.Mode != m.mode {
					bad("receiver-attributes", "%s: receiver has prec=%d mode=%d after the call", k.op, got.Prec, got.Mode)
					return
				}
				v := k.judge(got)
				if !v.m1Value && v.m2Value != "" {
					// known finding D15 only if what happened is what the finding describes: the saturated product plus u,
					// or - where that is Inf - Inf - an ErrNaN recorded by the context (receiver contents undefined)
					kf := ""
					if nan, _, ok := fmaKnownOutcome(k); ok {
						if nan {
							if _, isNaN := cx.Err().(decimal.ErrNaN); isNaN {
								kf = "fma_product_exponent_out_of_range"
							}
						} else {
							kf = fmaKnownFinding(k, &got, nil)
						}
					}
					c.Violate("not-rounded-to-context", fmt.Sprintf("%s under context prec=%d mode=%s: stored %s, want %s (%s); receiver before: %s", k.desc(true), m.prec, oracle.ModeNames[m.mode], got.V.Full(), v.exp.V.Full(), v.m2Value, pre), kf)
					return
				}
				if v.m1Value != (v.m2Value == "") {
					c.Inconclusive("oracle self-check: models disagree on " + k.desc(true))
					return
				}
			}
		case op < 66: // Err
			note("Err")
			e1 := cx.Err()
			e2 := cx.Err()
			c.Eval(r.U64(), true, "op/Err")
			if m.latched {
				if _, ok := e1.(decimal.ErrNaN); !ok {
					bad("wrong-error", "Err() returned %T %v, want the recorded ErrNaN", e1, e1)
					return
				}
				if e1.Error() != m.firstMsg {
					bad("not-the-first-error", "Err() returned %q, but the first NaN since the last Err() was %q", e1.Error(), m.firstMsg)
					return
				}
				c.Count("err_returned_ErrNaN", 1)
			} else if e1 != nil {
				bad("spurious-error", "Err() returned %v on an unlatched context", e1)
				return
			}
			if e2 != nil {
				bad("error-not-cleared", "a second Err() returned %v", e2)
				return
			}
			m.latched = false
		case op < 72:
			if r.Chance(12) {
				// "If prec > MaxPrec, it is set to MaxPrec": requests beyond the 32-bit field, through SetPrec and New.
				// Only cheap operations run at that precision (Quo and Sqrt allocate by precision); it is restored below.
				big := []uint{1 << 32, 1<<32 + 7, 1<<32 + uint(r.Range(1, 4000)), math.MaxUint64, decimal.MaxPrec + 1, decimal.MaxPrec, 1<<40 + 3, math.MaxUint64 - 5}[r.Intn(8)]
				note(fmt.Sprintf("SetPrec(%d)", big))
				c.Eval(r.U64(), true, "op/SetPrec/beyond-MaxPrec")
				cx.SetPrec(big)
				if cx.Prec() != decimal.MaxPrec {
					bad("wrong-context-precision", "Prec() = %d after SetPrec(%d), want MaxPrec", cx.Prec(), big)
					return
				}
				if c2 := dctx.New(big, decimal.RoundingMode(m.mode)); c2.Prec() != decimal.MaxPrec {
					bad("wrong-context-precision", "New(%d, mode).Prec() = %d, want MaxPrec", big, c2.Prec())
					return
				}
				if !m.latched {
					xv, yv := genCtxVal(r), genCtxVal(r)
					if xv.Form == oracle.Finite && yv.Form == oracle.Finite {
						X, Y := hx.Mk(xv, digitsOf(xv), 0), hx.Mk(yv, digitsOf(yv), 0)
						z := newRecv(int64(r.Range(0, 80)), r.Mode())
						cx.Mul(z, X, Y)
						got := hx.Snapshot(z)
						want := oracle.Mul(xv, yv).Expect(decimal.MaxPrec, m.mode)
						if got.Prec != decimal.MaxPrec || got.Mode != m.mode || !oracle.Equal(got.V, want.V) || got.Acc != 0 {
							bad("not-rounded-to-context", "Mul(%s, %s) under a context at MaxPrec stored %s, want the exact product %s", xv.Full(), yv.Full(), got, want.V.Full())
							return
						}
						c.Count("ops_at_MaxPrec_context", 1)
					}
				}
			}
			p := uint(r.Range(0, 70))
			note(fmt.Sprintf("SetPrec(%d)", p))
			cx.SetPrec(p)
			m.prec = int64(p)
			if p == 0 {
				m.prec = 34
			}
			if cx.Prec() != uint(m.prec) {
				bad("wrong-context-precision", "Prec() = %d after SetPrec(%d)", cx.Prec(), p)
				return
			}
			c.Eval(r.U64(), true, "op/SetPrec")
		case op < 77:
			md := r.Mode()
			note(fmt.Sprintf("SetMode(%d)", md))
			cx.SetMode(decimal.RoundingMode(md))
			m.mode = md
			if int(cx.Mode()) != md {
				bad("wrong-context-mode", "Mode() = %d after SetMode(%d)", cx.Mode(), md)
				return
			}
			c.Eval(r.U64(), true, "op/SetMode")
		case op < 80:
			// A Context is a value: a copy is a context of its own. A NaN met by the copy is the copy's business - the
			// original neither turns into a no-op machine nor hands out the copy's error.
			note("copy of the context, 0/0 in the copy")
			c.Eval(r.U64(), true, "op/copy")
			hi := cx
			hz := new(decimal.Decimal)
			zero := new(decimal.Decimal)
			if pi := hx.Try(func() { hi.Quo(hz, zero, zero) }); pi != nil {
				bad("panic-escaped", "Quo(0, 0) in a copy of the context: %s panic %q", pi.Class, pi.Text)
				return
			}
			if !m.latched {
				// (the original first: the copy's error is still pending)
				if e := cx.Err(); e != nil {
					bad("spurious-error", "Err() of the original returned %v after a NaN in a copy of the context", e)
					return
				}
				one, z2 := new(decimal.Decimal).SetInt64(1), new(decimal.Decimal)
				cx.Neg(z2, one)
				if z2.Cmp(one) == 0 || z2.Sign() != -1 {
					bad("latched-by-a-copy", "after a NaN in a copy of the context the original's Neg(1) left the receiver at %s", hx.RawOf(z2))
					return
				}
				if _, isNaN := hi.Err().(decimal.ErrNaN); !isNaN {
					bad("wrong-error", "a copy of an unlatched context did not keep the ErrNaN of its own 0/0")
					return
				}
				c.Count("context_copies_checked", 1)
			}
		default: // factories
			var z *decimal.Decimal
			var o oracle.Outcome
			exact := true
			which := r.Intn(9)
			var name string
			isNaN := false
			var sOK bool = true
			var fsrc *big.Float // argument of NewFloat64 / NewFloat
			injectedF, firedF := false, false
			var slack int64
			pi := hx.Try(func() {
				switch which {
				case 0:
					name = "New"
					z = cx.New()
					o = oracle.Ident(oracle.Val{Form: oracle.Zero})
				case 1:
					b := hx.CoefOf(r.Digits(r.Range(1, 90)))
					if r.Bool() {
						b.Neg(b)
					}
					name = "NewInt(" + b.String() + ")"
					z = cx.NewInt(b)
					o = oracle.Ident(valOfBig(b, 0))
				case 2:
					v := int64(gen64(r))
					name = fmt.Sprintf("NewInt64(%d)", v)
					z = cx.NewInt64(v)
					o = oracle.Ident(valOfBig(big.NewInt(v), 0))
				case 3:
					v := gen64(r)
					name = fmt.Sprintf("NewUint64(%d)", v)
					z = cx.NewUint64(v)
					o = oracle.Ident(valOfBig(new(big.Int).SetUint64(v), 0))
				case 4:
					a, b := hx.CoefOf(r.Digits(r.Range(1, 40))), hx.CoefOf(r.Digits(r.Range(1, 40)))
					q := new(big.Rat).SetFrac(a, b)
					name = "NewRat(" + q.String() + ")"
					z = cx.NewRat(q)
					if q.IsInt() {
						o = oracle.Ident(valOfBig(q.Num(), 0))
					} else {
						o = oracle.Outcome{Ex: oracle.ExRat{Num: q.Num(), Den: q.Denom()}}
					}
				case 5:
					f, _ := genF64(r)
					if r.Chance(25) {
						f = math.NaN()
						isNaN = true
					}
					if r.Chance(8) && !isNaN {
						f = math.Copysign(0, -1)
					}
					name = fmt.Sprintf("NewFloat64(%v)", f)
					if !isNaN {
						fsrc, slack = new(big.Float).SetFloat64(f), 1
					}
					if !isNaN && f != 0 && !math.IsInf(f, 0) && r.Chance(12) {
						// a panic that is not an ErrNaN, raised inside the conversion (first rounding): it must escape, whether
						// or not an error is pending (NewFloat64 is the one operation that still runs while latched)
						injectedF = true
						n := 0
						decimal.VerifHitFn = func(site int) {
							if site == decimal.VerifSiteRound {
								if n++; n == 1 {
									firedF = true
									panic("injected string panic")
								}
							}
						}
					}
					z = cx.NewFloat64(f)
					exact = false // faithful, not exact (C15): sign, class and distance are judged below
				case 6:
					bf, _ := genBigFloat(r, "quick")
					if r.Chance(8) {
						bf.SetInt64(0).Neg(bf)
					}
					name = "NewFloat(" + bf.Text('p', 0) + ")"
					fsrc, slack = new(big.Float).Copy(bf), 64
					z = cx.NewFloat(bf)
					exact = false
				case 7:
					lit := genLiteral10(r, hx.LimitsFor("quick"))
					name = fmt.Sprintf("NewString(%q)", lit.under)
					z, sOK = cx.NewString(lit.under)
					o = lit.outcome()
				default:
					lit := genLiteral10(r, hx.LimitsFor("quick"))
					name = fmt.Sprintf("ParseDecimal(%q)", lit.text)
					var err error
					z, _, err = cx.ParseDecimal(lit.text, 10)
					sOK = err == nil
					o = lit.outcome()
				}
			})
			decimal.VerifHitFn = nil
			note(name)
			c.Eval(r.U64(), true, "factory/"+opFamily(name))
			if injectedF && firedF {
				c.Count("injected_panics_in_factories", 1)
				if pi == nil {
					bad("foreign-panic-swallowed", "%s: a non-ErrNaN panic raised inside the conversion was swallowed (latched=%v)", name, m.latched)
					return
				}
				if pi.IsNaN {
					bad("foreign-panic-changed", "%s: injected panic surfaced as ErrNaN", name)
					return
				}
				continue // the latch is as it was: nothing else to judge
			}
			if pi != nil {
				if isNaN && pi.IsNaN {
					bad("nan-panic-escaped", "%s: the ErrNaN panic escaped instead of being recorded by the context", name)
					return
				}
				bad("panic", "%s: %s panic %q", name, pi.Class, pi.Text)
				return
			}
			if isNaN {
				if !m.latched {
					m.latched = true
					m.firstMsg = nanMessage(func() { new(decimal.Decimal).SetFloat64(math.NaN()) })
					c.Count("nan_latched", 1)
				} else {
					c.Count("nan_while_latched", 1)
				}
				break
			}
			if m.latched {
				break // factories have no receiver to leave untouched; nothing is promised about them while latched
			}
			if !sOK || z == nil {
				bad("factory-failed", "%s failed on a valid argument", name)
				return
			}
			got := hx.Snapshot(z)
			if int64(got.Prec) != m.prec || got.Mode != m.mode {
				bad("factory-attributes", "%s: result has prec=%d mode=%d", name, got.Prec, got.Mode)
				return
			}
			if exact {
				valueVerdict(c, fmt.Sprintf("%s under context prec=%d mode=%s", name, m.prec, oracle.ModeNames[m.mode]), o, got, m.prec, m.mode, "")
			} else if fsrc != nil {
				// binary arguments: zeros and infinities map to themselves with their sign, finite values land within the
				// distance C15 allows (one unit for a float64, a few dozen for a big.Float) of the correctly rounded value
				switch {
				case fsrc.IsInf() || fsrc.Sign() == 0:
					wantForm := oracle.Zero
					if fsrc.IsInf() {
						wantForm = oracle.Inf
					}
					if got.V.Form != wantForm || got.V.Neg != fsrc.Signbit() {
						bad("wrong-value", "%s stored %s", name, got)
						return
					}
				default:
					want := oracle.RoundOnce(exactOfBigFloat(fsrc), m.prec, m.mode)
					if got.V.Neg != fsrc.Signbit() || !withinUlps(got.V, want.V, m.prec, slack) {
						bad("wrong-value", "%s stored %s, correctly rounded %s (more than %d unit(s) away)", name, got, want.V.Full(), slack)
						return
					}
				}
				c.Count("binary_factories_judged", 1)
			}
		}
	}
	if c.WantSample("sequence") {
		c.Sample("sequence", fmt.Sprintf("last steps of sequence %d: %v", idx, trace))
	}
}
