package main

import (
	"fmt"
	"math"
	"math/big"
	"strings"

	"github.com/db47h/decimal"

	"verifharness/hx"
	"verifharness/oracle"
)

// C02 — Acc() is the sign of (stored value - exact value) after every operation
// documented to round into a receiver.

func init() {
	engines["C02"] = &engine{N: tierN(360000, 14000000), Setup: selfTest, Case: c02Case}
}

// accVerdict compares the reported accuracy with sign(stored - exact).
// exp is model #1's expectation, used only as a cross-check of the truth.
func accVerdict(c *hx.Ctx, what string, o oracle.Outcome, got hx.State, p int64, mode int, kf string) {
	truth := 0
	if !o.Special {
		truth = oracle.TrueAcc(o.Ex, got.V)
	} else if !oracle.Equal(o.R.V, got.V) {
		// a wrong special value is C01/C04's business; accuracy relative to an exact zero/infinity is not defined
		c.Count("acc_not_judged_wrong_special_value", 1)
		return
	}
	m1 := o.Expect(p, mode)
	if oracle.Equal(m1.V, got.V) && m1.Acc != truth {
		c.Inconclusive(fmt.Sprintf("oracle self-check: %s: stored %s equals the round-once value but model #1 accuracy %d != sign(stored-exact) %d", what, got.V.Full(), m1.Acc, truth))
		return
	}
	if c.Verbose {
		fmt.Printf("  stored %s acc=%d; sign(stored - exact)=%d\n", got, got.Acc, truth)
	}
	if got.Acc != truth {
		c.Violate("wrong-acc", fmt.Sprintf("%s: stored %s with Acc()=%d, but sign(stored - exact) = %d", what, got.V.Full(), got.Acc, truth), kf)
	}
}

// c02QuoTopPrecision: one inexact quotient of small integers per run into a receiver whose precision lies in the last
// 18 below MaxPrec (about 3.5 GB and ten seconds: the division works by the precision). The quotient n/d with d = 3, 7 or 9
// never terminates: the result must fill the precision (MinPrec = Prec), be Below or Above as the mode says, and start
// with the right digits.
func c02QuoTopPrecision(c *hx.Ctx, r *hx.RNG) {
	p := uint(maxPrec - r.Range(0, 17)) // within a word of MaxPrec: prec + 18 does not fit 32 bits
	den := int64([]int{3, 7, 9}[r.Intn(3)])
	num := int64(r.Range(1, int(den)-1))
	if den == 9 && num%3 == 0 {
		num = 1
	}
	mode := r.Mode()
	what := fmt.Sprintf("Quo(%d, %d) prec=%d mode=%s", num, den, p, oracle.ModeNames[mode])
	c.Note(what)
	z := new(decimal.Decimal).SetPrec(p).SetMode(decimal.RoundingMode(mode))
	x, y := new(decimal.Decimal).SetInt64(num), new(decimal.Decimal).SetInt64(den)
	pi := hx.Try(func() { z.Quo(x, y) })
	c.Eval(hx.HashStr(what), true, "Quo/precision-next-to-MaxPrec")
	if pi != nil {
		c.Violate("panic", fmt.Sprintf("%s: %s panic %q at %s", what, pi.Class, pi.Text, pi.Stack), "")
		return
	}
	up := mode == oracle.AwayFromZero || mode == oracle.ToPositiveInf
	if mode == oracle.ToNearestEven || mode == oracle.ToNearestAway {
		// 0.1 <= n/d < 1 and its digits repeat from the first one with period 1 (d = 3, 9) or 6 (d = 7): the digit after
		// the last kept one decides (never a tie: the digits go on)
		frac := new(big.Int).Quo(new(big.Int).Mul(big.NewInt(num), oracle.Pow10(12)), big.NewInt(den)).String() // 12 digits
		period := map[int64]uint64{3: 1, 9: 1, 7: 6}[den]
		up = frac[uint64(p)%period] >= '5'
	}
	wantAcc := -1
	if up {
		wantAcc = 1
	}
	if uint64(z.Prec()) != uint64(p) || z.IsInf() || z.IsZero() || z.Signbit() {
		c.Violate("wrong-value", fmt.Sprintf("%s: stored a value of class/precision %v/%d", what, z.IsInf(), z.Prec()), "")
		return
	}
	mp := uint64(z.MinPrec())
	if int(z.Acc()) != wantAcc || (mp != uint64(p) && !(up && mp < uint64(p))) {
		c.Violate("wrong-acc", fmt.Sprintf("%s: Acc()=%d, want %d; the result holds %d significant digits (a non-terminating quotient fills the precision)", what, z.Acc(), wantAcc, mp), "")
		return
	}
	// leading digits (read from the top mantissa word: formatting would copy 1.8 GB)
	bm, be := z.BitsExp()
	wantTop := new(big.Int).Quo(new(big.Int).Mul(big.NewInt(num), oracle.Pow10(19)), big.NewInt(den)).Uint64()
	if len(bm) == 0 || be != 0 || uint64(bm[len(bm)-1]) != wantTop {
		c.Violate("wrong-value", fmt.Sprintf("%s: exponent %d, %d mantissa words, top word %v (want exponent 0, top word %d)", what, be, len(bm), bm[maxI(len(bm)-1, 0):], wantTop), "")
	}
}

func c02Case(c *hx.Ctx, r *hx.RNG, idx int64) {
	if idx%4000000 == 31 {
		c02QuoTopPrecision(c, r)
		releaseHuge()
		return
	}
	l := hx.LimitsFor(c.Tier)
	if r.Chance(55) {
		c02Arith(c, r, l)
		return
	}
	c02Setter(c, r, l)
}

func c02Arith(c *hx.Ctx, r *hx.RNG, l hx.Limits) {
	var k *opCase
	if r.Chance(18) {
		k = genFMA(r, l)
	} else {
		k = genC01(r, l)
		if k.op == "Neg" || k.op == "Abs" {
			k.op = "Set" // Neg/Abs change the sign after rounding: their accuracy is not in the statement
		}
	}
	o := k.outcome()
	// bias towards exactly representable results: Exact must be reported iff nothing was lost
	if !o.NaN && !o.Special && r.Chance(35) {
		if d, ok := o.Ex.(oracle.ExDec); ok {
			k.p = oracle.Val{Form: oracle.Finite, Coef: d.Coef}.MinPrec() + int64(r.Intn(3))
		}
	}
	if k.costly(l) {
		c.Skip()
		return
	}
	if c.Verbose {
		fmt.Println("case:", k.desc(true))
	}
	got, pi := k.exec()
	kf := fmaKnownFinding(k, &got, pi) // D15, and only when the outcome is the one the finding describes
	cls := k.op + "/" + k.class
	if pi != nil {
		if pi.Class == "mk" || pi.Class == "cost" {
			panic(pi.Val)
		}
		c.Eval(k.key(), true, cls)
		if pi.IsNaN && o.NaN {
			return
		}
		c.Violate("panic", fmt.Sprintf("%s: %s panic %q at %s", k.desc(true), pi.Class, pi.Text, pi.Stack), kf)
		return
	}
	if o.NaN {
		return
	}
	exp := o.Expect(k.p, k.mode)
	c.Eval(k.key(), true, cls)
	c.Classes[fmt.Sprintf("expected-acc/%d", exp.Acc)]++
	if c.WantSample(cls) {
		c.Sample(cls, fmt.Sprintf("%s -> %s", k.desc(false), got))
	}
	accVerdict(c, k.desc(true), o, got, k.p, k.mode, kf)
}

// ------------------------------------------------------------- setters

var edge64 = []uint64{0, 1, 9, 10, 99, 1 << 63, 1<<63 - 1, 1<<63 + 1, math.MaxUint64, math.MaxUint64 - 1, 9999999999999999999, 10000000000000000000, 999999999999999999, 1000000000000000000, 9223372036854775800, 18446744073709551610, 5000000000000000000, 1234567890123456789}

func gen64(r *hx.RNG) uint64 {
	switch r.Intn(4) {
	case 0:
		return edge64[r.Intn(len(edge64))]
	case 1:
		d := r.RoundAimed(r.Range(1, 17))
		if len(d) > 19 {
			d = d[:19]
		}
		return hx.CoefOf(d).Uint64()
	case 2:
		return r.U64() >> uint(r.Intn(64))
	}
	return r.U64()
}

func setterPrec(r *hx.RNG, hint int) int64 {
	if r.Chance(12) {
		return 0
	}
	if hint > 0 && r.Chance(3) {
		// a precision from the top of the range: the argument is stored exactly, nothing is allocated for the precision
		// (hint 0 marks SetRat, which divides at the receiver's precision)
		return int64(hugePrec(r))
	}
	if r.Chance(40) && hint > 1 {
		return int64(maxI(1, hint+r.Range(-3, 2)))
	}
	return int64(r.Range(1, 45))
}

// effPrec is the precision a setter uses when the receiver's is 0, where the statement/doc fixes it.
func newRecv(p int64, mode int) *decimal.Decimal {
	return new(decimal.Decimal).SetPrec(uint(p)).SetMode(decimal.RoundingMode(mode))
}

// usedRecv is a receiver that has been used before: in half of the cases it holds the result of an inexact
// operation (stale accuracy, full mantissa), an infinity or a negative zero.
func usedRecv(r *hx.RNG, p int64, mode int) *decimal.Decimal {
	z := newRecv(p, mode)
	if r.Bool() {
		soil(z, r.Range(1, 4))
	}
	return z
}

func c02Setter(c *hx.Ctx, r *hx.RNG, l hx.Limits) {
	mode := r.Mode()
	var what, cls string
	var o oracle.Outcome
	var got hx.State
	var pEff int64 // precision the result must be rounded to
	var pi *hx.PanicInfo
	switch r.Intn(9) {
	case 0: // SetUint64
		x := gen64(r)
		p := setterPrec(r, len(fmt.Sprint(x)))
		z := usedRecv(r, p, mode)
		pi = hx.Try(func() { z.SetUint64(x) })
		got = hx.Snapshot(z)
		o = oracle.Ident(valOfBig(new(big.Int).SetUint64(x), 0))
		what, cls, pEff = fmt.Sprintf("SetUint64(%d) prec=%d mode=%s", x, p, oracle.ModeNames[mode]), "SetUint64", p
		if p == 0 {
			pEff = 34
		}
	case 1: // SetInt64
		x := int64(gen64(r))
		if r.Chance(10) {
			x = math.MinInt64
		}
		p := setterPrec(r, len(fmt.Sprint(x)))
		z := usedRecv(r, p, mode)
		pi = hx.Try(func() { z.SetInt64(x) })
		got = hx.Snapshot(z)
		o = oracle.Ident(valOfBig(big.NewInt(x), 0))
		what, cls, pEff = fmt.Sprintf("SetInt64(%d) prec=%d mode=%s", x, p, oracle.ModeNames[mode]), "SetInt64", p
		if p == 0 {
			pEff = 34
		}
	case 2: // SetInt
		var b *big.Int
		n := r.Len(l)
		if r.Bool() {
			b = hx.CoefOf(r.RoundAimed(minInt(n, 300)))
		} else {
			b = hx.CoefOf(r.Digits(n))
		}
		switch r.Intn(8) {
		case 0:
			b = new(big.Int).Lsh(big.NewInt(1), uint(r.Range(0, 400)))
		case 1:
			b = new(big.Int).Set(oracle.Pow10(int64(r.Range(0, 120))))
		case 2:
			b = big.NewInt(0)
		}
		if r.Bool() {
			b.Neg(b)
		}
		p := setterPrec(r, int(oracle.Digits(new(big.Int).Abs(b))))
		z := usedRecv(r, p, mode)
		pi = hx.Try(func() { z.SetInt(b) })
		got = hx.Snapshot(z)
		o = oracle.Ident(valOfBig(b, 0))
		what, cls, pEff = fmt.Sprintf("SetInt(%s) prec=%d mode=%s", b.String(), p, oracle.ModeNames[mode]), "SetInt", p
		if p == 0 {
			pEff = int64(got.Prec) // documented only as an interval (C09); exactness is what matters here
		}
	case 3: // SetRat
		a := hx.CoefOf(r.Digits(r.Range(1, 90)))
		b := hx.CoefOf(r.Digits(r.Range(1, 90)))
		switch r.Intn(4) {
		case 0: // terminating: denominator 2^i 5^j
			b = new(big.Int).Exp(big.NewInt(2), big.NewInt(int64(r.Range(0, 40))), nil)
			b.Mul(b, new(big.Int).Exp(big.NewInt(5), big.NewInt(int64(r.Range(0, 40))), nil))
		case 1: // exact quotient aimed at rounding
			q := hx.CoefOf(r.RoundAimed(r.Range(1, 40)))
			a = new(big.Int).Mul(q, b)
			b.Mul(b, oracle.Pow10(int64(r.Range(0, 30))))
		}
		q := new(big.Rat).SetFrac(a, b)
		if r.Bool() {
			q.Neg(q)
		}
		p := setterPrec(r, 0)
		z := usedRecv(r, p, mode)
		pi = hx.Try(func() { z.SetRat(q) })
		got = hx.Snapshot(z)
		if q.IsInt() {
			o = oracle.Ident(valOfBig(q.Num(), 0))
		} else {
			o = oracle.Outcome{Ex: oracle.ExRat{Neg: q.Sign() < 0, Num: new(big.Int).Abs(q.Num()), Den: q.Denom(), Exp: 0}}
		}
		what, cls, pEff = fmt.Sprintf("SetRat(%s) prec=%d mode=%s", q.String(), p, oracle.ModeNames[mode]), "SetRat", p
		if p == 0 {
			pEff = int64(got.Prec)
		}
	case 4: // NewDecimal
		x := int64(gen64(r))
		e := r.LeadExp()
		if r.Chance(15) {
			e = []int64{math.MaxInt64, math.MinInt64, math.MaxInt32, math.MinInt32, math.MaxInt64 - 40, math.MinInt64 + 40, math.MaxInt32 + 1, math.MinInt32 - 1}[r.Intn(8)]
		}
		var z *decimal.Decimal
		pi = hx.Try(func() { z = decimal.NewDecimal(x, int(e)) })
		if z != nil {
			got = hx.Snapshot(z)
		}
		o = identBig(big.NewInt(x), e)
		mode = oracle.ToNearestEven
		what, cls, pEff = fmt.Sprintf("NewDecimal(%d, %d)", x, e), "NewDecimal", 34
	case 5: // SetMantExp
		n := r.Range(1, 60)
		v := r.Finite(n, r.LeadExp())
		switch r.Intn(12) {
		case 0:
			v = oracle.Val{Form: oracle.Zero, Neg: r.Bool()}
		case 1:
			v = oracle.Val{Form: oracle.Inf, Neg: r.Bool()}
		}
		e := int64(r.Range(-100, 100))
		if r.Chance(50) && v.Form == oracle.Finite { // land near either end of the range
			tgt := []int64{oracle.MaxExp, oracle.MinExp}[r.Intn(2)] + int64(r.Range(-3, 3))
			e = tgt - v.LeadExp()
		}
		if r.Chance(8) {
			e = []int64{math.MaxInt64, math.MinInt64, math.MaxInt64 - 1000, math.MinInt64 + 1000}[r.Intn(4)]
		}
		mant := hx.MkR(r, v, digitsOf(v)+uint(r.Intn(10)), mode) // (also specials with leftovers, and operands whose accuracy is Below/Above)
		z := usedRecv(r, int64(r.Range(0, 40)), r.Mode())
		pi = hx.Try(func() { z.SetMantExp(mant, int(e)) })
		got = hx.Snapshot(z)
		if v.Form == oracle.Finite {
			o = identBigSigned(v.Neg, v.Coef, new(big.Int).Add(big.NewInt(v.Exp), big.NewInt(e)))
		} else {
			o = oracle.Ident(v)
		}
		what, cls, pEff = fmt.Sprintf("SetMantExp(%s prec=%d, %d)", v.Full(), mant.Prec(), e), "SetMantExp", int64(mant.Prec())
	default: // base-10 literals through Parse / SetString / UnmarshalText
		lit := genLiteral10(r, l)
		if r.Chance(15) && !strings.ContainsAny(lit.text, "eE") {
			// a decimal mantissa scaled by a small power of two (Parse reports base 10): the value is the exact decimal
			// digits x 2^k, and it is rounded once like any other literal
			k := r.Range(1, 60)
			cf, _ := new(big.Int).SetString(lit.digits, 10)
			suffix := fmt.Sprintf("p%d", k)
			if r.Bool() {
				suffix = fmt.Sprintf("p-%d", k)
				cf.Mul(cf, new(big.Int).Exp(big.NewInt(5), big.NewInt(int64(k)), nil))
				lit.exp -= int64(k)
			} else {
				cf.Lsh(cf, uint(k))
			}
			lit.digits = cf.String()
			lit.text += suffix
			lit.under += suffix
		}
		p := setterPrec(r, len(lit.digits))
		if p > 1<<20 && strings.ContainsAny(lit.text, "pP") {
			p = int64(r.Range(1, 45)) // (a binary exponent is applied by a multiplication or division at the receiver's precision)
		}
		z := usedRecv(r, p, mode)
		via := r.Intn(4)
		var err error
		var ok bool = true
		pi = hx.Try(func() {
			switch via {
			case 0:
				_, _, err = z.Parse(lit.text, 10)
			case 1:
				_, _, err = z.Parse(lit.under, 0)
			case 2:
				_, ok = z.SetString(lit.under)
			default:
				err = z.UnmarshalText([]byte(lit.text))
			}
		})
		got = hx.Snapshot(z)
		o = lit.outcome()
		cls = []string{"Parse10", "Parse0", "SetString", "UnmarshalText"}[via]
		what, pEff = fmt.Sprintf("%s(%q) prec=%d mode=%s", cls, lit.text, p, oracle.ModeNames[mode]), p
		if p == 0 {
			pEff = 34
		}
		if pi == nil && (err != nil || !ok) {
			c.Eval(hx.HashStr(what), true, cls)
			c.Violate("rejected-valid-literal", fmt.Sprintf("%s: error %v", what, err), "")
			return
		}
	}
	c.Note(what)
	if c.Verbose {
		fmt.Println("case:", what)
	}
	c.Eval(hx.HashStr(what), true, cls)
	if pi != nil {
		if pi.Class == "mk" || pi.Class == "cost" {
			panic(pi.Val)
		}
		c.Violate("panic", fmt.Sprintf("%s: %s panic %q at %s", what, pi.Class, pi.Text, pi.Stack), "")
		return
	}
	if pEff < 1 {
		pEff = 1
	}
	exp := o.Expect(pEff, mode)
	c.Classes[fmt.Sprintf("expected-acc/%d", exp.Acc)]++
	if c.WantSample(cls) {
		c.Sample(cls, fmt.Sprintf("%s -> %s", what, got))
	}
	accVerdict(c, what, o, got, pEff, mode, "")
}

func valOfBig(b *big.Int, e int64) oracle.Val {
	if b.Sign() == 0 {
		return oracle.Val{Form: oracle.Zero}
	}
	return oracle.Val{Form: oracle.Finite, Neg: b.Sign() < 0, Coef: new(big.Int).Abs(b), Exp: e}
}

// identBig is the value b x 10^e with e anywhere in int64: outside the range it
// is described by a stand-in exponent just beyond the range (same saturation).
func identBig(b *big.Int, e int64) oracle.Outcome {
	return identBigSigned(b.Sign() < 0, new(big.Int).Abs(b), big.NewInt(e))
}

func identBigSigned(neg bool, coef *big.Int, e *big.Int) oracle.Outcome {
	if coef.Sign() == 0 {
		return oracle.Ident(oracle.Val{Form: oracle.Zero, Neg: neg})
	}
	// clamp the exponent so that int64 arithmetic in the oracle cannot wrap while the lead exponent stays outside the range
	lim := big.NewInt(1 << 40)
	ee := new(big.Int).Set(e)
	if ee.Cmp(lim) > 0 {
		ee = lim
	}
	if ee.Cmp(new(big.Int).Neg(lim)) < 0 {
		ee.Neg(lim)
	}
	return oracle.Outcome{Ex: oracle.ExDec{Neg: neg, Coef: coef, Exp: ee.Int64()}}
}

// literal10 is a generated base-10 literal together with its exact value.
type literal10 struct {
	neg    bool
	digits string // all mantissa digits, radix point removed
	exp    int64  // value = digits x 10^exp
	text   string // plain rendering
	under  string // rendering with '_' separators (legal for base 0)
}

func (l literal10) outcome() oracle.Outcome {
	c, _ := new(big.Int).SetString(l.digits, 10)
	if c.Sign() == 0 {
		return oracle.Ident(oracle.Val{Form: oracle.Zero, Neg: l.neg})
	}
	return oracle.Outcome{Ex: oracle.ExDec{Neg: l.neg, Coef: c, Exp: l.exp}}
}

func genLiteral10(r *hx.RNG, l hx.Limits) literal10 {
	var lit literal10
	n := r.Len(l)
	var d []byte
	if r.Bool() {
		d = r.RoundAimed(minInt(n, 300))
	} else {
		d = r.Digits(n)
	}
	if r.Chance(25) { // leading zeros
		d = append([]byte(strings.Repeat("0", r.Range(1, 25))), d...)
	}
	if r.Chance(25) { // trailing zeros
		d = append(d, strings.Repeat("0", r.Range(1, 25))...)
	}
	if r.Chance(3) {
		d = []byte(strings.Repeat("0", r.Range(1, 30)))
	}
	lit.digits = string(d)
	lit.neg = r.Bool()
	k := len(d) // digits before the point
	hasPoint := r.Chance(60)
	if hasPoint {
		k = r.Intn(len(d) + 1)
	}
	// exponent: keep the leading digit's exponent inside the range
	var e int64
	hasExp := r.Chance(60)
	if hasExp {
		e = r.LeadExp()
		if r.Chance(60) {
			e = int64(r.Range(-400, 400))
		}
		// lead exponent of the value is at most k + e and at least k + e - len(d)
		if int64(k)+e > oracle.MaxExp {
			e = oracle.MaxExp - int64(k)
		}
		if int64(k)+e-int64(len(d)) < oracle.MinExp {
			e = oracle.MinExp + int64(len(d)) - int64(k)
		}
	}
	lit.exp = e - int64(len(d)-k)
	var b, u strings.Builder
	sign := ""
	if lit.neg {
		sign = "-"
	} else if r.Chance(20) {
		sign = "+"
	}
	b.WriteString(sign)
	u.WriteString(sign)
	writeDigits := func(s string) {
		b.WriteString(s)
		for i := 0; i < len(s); i++ {
			if i > 0 && r.Chance(10) {
				u.WriteByte('_')
			}
			u.WriteByte(s[i])
		}
	}
	writeDigits(lit.digits[:k])
	if hasPoint {
		b.WriteByte('.')
		u.WriteByte('.')
		writeDigits(lit.digits[k:])
	}
	if hasExp {
		ec := "eE"[r.Intn(2)]
		es := fmt.Sprint(e)
		if e >= 0 && r.Bool() {
			es = "+" + es
		}
		b.WriteByte(ec)
		b.WriteString(es)
		u.WriteByte(ec)
		u.WriteString(es)
	}
	lit.text, lit.under = b.String(), u.String()
	return lit
}
