package main

import (
	"fmt"
	"math"
	"math/big"
	"strconv"
	"strings"

	"verifharness/hx"
	"verifharness/oracle"
)

// selfTest validates both oracle models against strconv and math/big, which share
// no code with them, before any verdict is produced. A failure is a bug in /verif:
// the run becomes inconclusive.
func selfTest(c *hx.Ctx) {
	r := hx.NewRNG(12345, "selftest", 0)
	fail := func(f string, a ...interface{}) {
		c.Begin(-1, "selftest")
		c.Inconclusive("oracle self-test: " + fmt.Sprintf(f, a...))
	}
	n := 0
	// (a) exact decimal expansions of float64 values, nearest-even, against strconv
	for i := 0; i < 1500; i++ {
		var f float64
		switch i % 3 {
		case 0:
			f = math.Float64frombits(r.U64())
		case 1:
			f = float64(r.U64()%1000000) / float64(1+r.U64()%4096)
		default:
			f = math.Ldexp(float64(r.U64()>>11), r.Range(-200, 200))
		}
		if math.IsNaN(f) || math.IsInf(f, 0) || f == 0 {
			continue
		}
		ex := exactOfFloat(f)
		p := int64(r.Range(1, 17))
		got := oracle.RoundOnce(ex, p, oracle.ToNearestEven)
		want := strconv.FormatFloat(f, 'e', int(p-1), 64)
		if s := fmtE(got.V, p); s != want {
			fail("RoundOnce(%v, p=%d) = %s, strconv says %s", f, p, s, want)
			return
		}
		if vm, am := oracle.DefCheck(ex, got.V, got.Acc, p, oracle.ToNearestEven); vm != "" || am != "" {
			fail("DefCheck rejects RoundOnce's own result for %v p=%d: %q %q", f, p, vm, am)
			return
		}
		// a neighbour one unit away must be rejected in every mode unless it is the other correct answer of a directed mode
		for mode := 0; mode < oracle.NumModes; mode++ {
			res := oracle.RoundOnce(ex, p, mode)
			if vm, am := oracle.DefCheck(ex, res.V, res.Acc, p, mode); vm != "" || am != "" {
				fail("DefCheck rejects RoundOnce for %v p=%d mode=%d: %q %q", f, p, mode, vm, am)
				return
			}
			if res.V.Form != oracle.Finite {
				continue
			}
			for _, d := range []int64{-1, 1} {
				nb := neighbour(res.V, p, d)
				if vm, _ := oracle.DefCheck(ex, nb, 0, p, mode); vm == "" && res.Acc != 0 {
					fail("DefCheck accepts a wrong neighbour of %v p=%d mode=%d: %s vs %s", f, p, mode, nb, res.V)
					return
				} else if res.Acc == 0 && vm == "" {
					fail("DefCheck accepts a neighbour of an exact result %v p=%d mode=%d", f, p, mode)
					return
				}
			}
		}
		n++
	}
	// (b) ratios against big.Rat.FloatString (round half away)
	for i := 0; i < 400; i++ {
		a := new(big.Int).SetUint64(r.U64()%1000000000 + 1)
		b := new(big.Int).SetUint64(r.U64()%1000000000 + 1)
		if i%4 == 0 {
			a.Mul(a, new(big.Int).SetUint64(r.U64()))
			b.Mul(b, new(big.Int).SetUint64(r.U64()|1))
		}
		ex := oracle.ExRat{Neg: false, Num: a, Den: b, Exp: 0}
		p := int64(r.Range(1, 30))
		res := oracle.RoundOnce(ex, p, oracle.ToNearestAway)
		// digits after the point so that p significant digits are printed
		le := ex.LeadExp()
		frac := p - le
		if frac < 0 {
			continue
		}
		want := new(big.Rat).SetFrac(a, b).FloatString(int(frac))
		wr, _ := new(big.Rat).SetString(want)
		gr := valRat(res.V)
		if wr.Cmp(gr) != 0 {
			fail("RoundOnce(%v/%v, p=%d, away) = %s, big.Rat says %s", a, b, p, res.V, want)
			return
		}
		for mode := 0; mode < oracle.NumModes; mode++ {
			rs := oracle.RoundOnce(ex, p, mode)
			if vm, am := oracle.DefCheck(ex, rs.V, rs.Acc, p, mode); vm != "" || am != "" {
				fail("DefCheck rejects RoundOnce for ratio %v/%v p=%d mode=%d: %q %q", a, b, p, mode, vm, am)
				return
			}
		}
		n++
	}
	// (c) square roots against big.Float.Sqrt at a much higher precision
	for i := 0; i < 300; i++ {
		co := new(big.Int).SetUint64(r.U64()%100000000000 + 1)
		if i%3 == 0 {
			co.Mul(co, co) // perfect square
		}
		e := int64(r.Range(-20, 20))
		ex := oracle.ExSqrt{Coef: co, Exp: e}
		p := int64(r.Range(1, 25))
		res := oracle.RoundOnce(ex, p, oracle.ToNearestEven)
		x := new(big.Float).SetPrec(3000).SetInt(co)
		t := new(big.Float).SetPrec(3000)
		if e >= 0 {
			x.Mul(x, t.SetInt(oracle.Pow10(e)))
		} else {
			x.Quo(x, t.SetInt(oracle.Pow10(-e)))
		}
		x.Sqrt(x)
		want := x.Text('e', int(p-1))
		if s := fmtE(res.V, p); s != want {
			fail("RoundOnce(sqrt(%ve%d), p=%d) = %s, big.Float says %s", co, e, p, s, want)
			return
		}
		for mode := 0; mode < oracle.NumModes; mode++ {
			rs := oracle.RoundOnce(ex, p, mode)
			if vm, am := oracle.DefCheck(ex, rs.V, rs.Acc, p, mode); vm != "" || am != "" {
				fail("DefCheck rejects RoundOnce for sqrt(%ve%d) p=%d mode=%d: %q %q", co, e, p, mode, vm, am)
				return
			}
		}
		n++
	}
	c.Count("oracle_selftest_cases", int64(n))
}

// exactOfFloat returns the exact decimal expansion of a finite non-zero float64.
func exactOfFloat(f float64) oracle.ExDec {
	neg := math.Signbit(f)
	fr, e := math.Frexp(math.Abs(f))
	m := new(big.Int).SetUint64(uint64(math.Ldexp(fr, 53)))
	e -= 53
	// m x 2^e
	if e >= 0 {
		m.Lsh(m, uint(e))
		return oracle.ExDec{Neg: neg, Coef: m, Exp: 0}
	}
	// m / 2^-e = m x 5^-e / 10^-e
	five := new(big.Int).Exp(big.NewInt(5), big.NewInt(int64(-e)), nil)
	m.Mul(m, five)
	return oracle.ExDec{Neg: neg, Coef: m, Exp: int64(e)}
}

func valRat(v oracle.Val) *big.Rat {
	r := new(big.Rat).SetInt(v.Coef)
	if v.Exp >= 0 {
		r.Mul(r, new(big.Rat).SetInt(oracle.Pow10(v.Exp)))
	} else {
		r.Quo(r, new(big.Rat).SetInt(oracle.Pow10(-v.Exp)))
	}
	if v.Neg {
		r.Neg(r)
	}
	return r
}

// fmtE prints a finite value with exactly p significant digits in strconv's %e layout.
func fmtE(v oracle.Val, p int64) string {
	s := v.Coef.String()
	exp := v.Exp + int64(len(s)) - 1
	for int64(len(s)) < p {
		s += "0"
	}
	s = s[:p]
	var b strings.Builder
	if v.Neg {
		b.WriteByte('-')
	}
	b.WriteByte(s[0])
	if p > 1 {
		b.WriteByte('.')
		b.WriteString(s[1:])
	}
	b.WriteByte('e')
	if exp < 0 {
		b.WriteByte('-')
		exp = -exp
	} else {
		b.WriteByte('+')
	}
	if exp < 10 {
		b.WriteByte('0')
	}
	b.WriteString(strconv.FormatInt(exp, 10))
	return b.String()
}

// neighbour returns the p-digit value d units in the last place away from v.
func neighbour(v oracle.Val, p int64, d int64) oracle.Val {
	dg := oracle.Digits(v.Coef)
	c := new(big.Int).Mul(v.Coef, oracle.Pow10(p-dg))
	e := v.Exp - (p - dg)
	c.Add(c, big.NewInt(d))
	if c.Cmp(oracle.Pow10(p-1)) < 0 { // crossed below a power of ten
		c = new(big.Int).Sub(oracle.Pow10(p), big.NewInt(1))
		e--
	}
	return oracle.Val{Form: oracle.Finite, Neg: v.Neg, Coef: c, Exp: e}
}
