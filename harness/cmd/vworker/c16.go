package main

import (
	"fmt"
	"math/big"
	"sort"

	"github.com/db47h/decimal"

	"verifharness/hx"
	"verifharness/oracle"
)

// C16 — Cmp is the exact total order; Sign/Signbit/IsZero/IsInf agree with it.

func init() {
	engines["C16"] = &engine{N: tierN(130000, 8000000), Case: c16Case}
}

// mkVia builds a library value equal to v through one of several routes so that
// equal values come with different mantissa lengths, precisions, modes, accuracies.
func mkVia(r *hx.RNG, v oracle.Val) (*decimal.Decimal, string) {
	z, how := mkVia0(r, v)
	if v.Form == oracle.Finite && r.Chance(6) { // whatever the route: a precision from the top of the range afterwards (the value stays)
		z.SetPrec(hugePrec(r))
		how += "+huge-prec"
	}
	return z, how
}

func mkVia0(r *hx.RNG, v oracle.Val) (*decimal.Decimal, string) {
	if v.Form != oracle.Finite {
		return hx.MkR(r, v, uint(r.Range(0, 60)), r.Mode()), "special"
	}
	d := digitsOf(v)
	switch r.Intn(6) {
	case 5: // a mantissa longer than the precision needs (zero low words): the shape a decoded gob payload may have
		return hx.MkLong(v, d+uint(r.Intn(3)*r.Intn(20)), r.Mode(), r.Range(1, 9)), "long-mantissa"
	case 0: // raw words with extra low zero words
		k := int64(r.Range(1, 5)) * 19
		w := oracle.Val{Form: oracle.Finite, Neg: v.Neg, Coef: new(big.Int).Mul(v.Coef, oracle.Pow10(k)), Exp: v.Exp - k}
		return hx.Mk(w, d+uint(k)+uint(r.Intn(20)), r.Mode()), "low-zero-words"
	case 1: // parser at a larger precision
		z := new(decimal.Decimal).SetPrec(d + uint(r.Range(0, 80))).SetMode(decimal.RoundingMode(r.Mode()))
		if _, ok := z.SetString(v.Full()); !ok {
			panic(hx.MkError{Msg: "SetString rejected " + v.Full()})
		}
		return z, "parsed"
	case 2: // arithmetic result with a non-Exact accuracy history: (v*3)/3 at a large precision is exact again, then Set into a tight receiver
		a := hx.Mk(v, d, 0)
		three := new(decimal.Decimal).SetInt64(3)
		t := new(decimal.Decimal).SetPrec(d + 25)
		t.Mul(a, three)
		t.Quo(t, three)
		z := new(decimal.Decimal).SetPrec(d).SetMode(decimal.RoundingMode(r.Mode()))
		z.Set(t)
		if !oracle.Equal(hx.Read(z), v) {
			return hx.Mk(v, d, r.Mode()), "raw"
		}
		return z, "arithmetic"
	case 3: // a receiver that held a much longer value before
		z := hx.Mk(r.Finite(r.Range(100, 400), 0), 0, r.Mode())
		z.SetPrec(d + uint(r.Intn(10)))
		z.Set(hx.Mk(v, d, 0))
		return z, "reused-buffer"
	}
	return hx.Mk(v, d+uint(r.Intn(3)*r.Intn(40)), r.Mode()), "raw"
}

func genCmpVal(r *hx.RNG) oracle.Val {
	switch r.Intn(14) {
	case 0:
		return oracle.Val{Form: oracle.Zero, Neg: r.Bool()}
	case 1:
		return oracle.Val{Form: oracle.Inf, Neg: r.Bool()}
	}
	return r.Finite(r.Range(1, 120), r.LeadExp())
}

// neighbour of v: same value, negated, last digit changed, one more digit, exponent +-1
func genRelated(r *hx.RNG, v oracle.Val) (oracle.Val, string) {
	if v.Form != oracle.Finite {
		return genCmpVal(r), "unrelated"
	}
	switch r.Intn(11) {
	case 10: // b's lowest words are a's words (b = extra words in front of a's digit string): the two mantissas agree word
		// for word at equal slice indexes although, aligned at the top as a comparison must align them, they differ
		pad := (19 - oracle.Digits(v.Coef)%19) % 19
		a := new(big.Int).Mul(v.Coef, oracle.Pow10(pad))
		na := oracle.Digits(a) / 19
		if na < 8 { // (block-wise shortcuts need a few words): repeat a's digit string
			rep := new(big.Int).Set(a)
			for ; na < int64(r.Range(8, 14)); na += oracle.Digits(rep) / 19 {
				a.Mul(a, oracle.Pow10(oracle.Digits(rep)))
				a.Add(a, rep)
			}
		}
		k := int64(r.Range(1, 9))
		front := hx.CoefOf(r.Digits(int(19 * k)))
		bc := new(big.Int).Mul(front, oracle.Pow10(oracle.Digits(a)))
		bc.Add(bc, a)
		lead := v.LeadExp()
		// both values keep the leading exponent; the first value of the case becomes the (possibly repeated) digit string a
		c16AltA = &oracle.Val{Form: oracle.Finite, Neg: v.Neg, Coef: a, Exp: lead - oracle.Digits(a)}
		return inRange(oracle.Val{Form: oracle.Finite, Neg: v.Neg, Coef: bc, Exp: lead - oracle.Digits(bc)}), "low-words-equal-the-shorter-value"
	case 8: // the same words plus extra low words taken from the edge set (pairs of them sum to 2^64 - 1 or 2^64)
		pad := (19 - oracle.Digits(v.Coef)%19) % 19
		k := r.Range(1, 4)
		c := new(big.Int).Mul(v.Coef, oracle.Pow10(pad))
		words := []uint64{1 << 63, 1 << 63, 1<<63 - 1, 1 << 62, 1<<64 - wb, 1<<64 - wb - 1, wb - 1, 1, 0}
		w0 := words[r.Intn(len(words))]
		for i := 0; i < k; i++ {
			w := words[r.Intn(len(words))]
			if r.Chance(40) {
				w = w0 // the same word repeated: 2 x 2^63, 4 x 2^62 wrap to 0 in 64 bits
			}
			c.Mul(c, oracle.Pow10(19))
			c.Add(c, new(big.Int).SetUint64(w))
		}
		return inRange(oracle.Val{Form: oracle.Finite, Neg: v.Neg, Coef: c, Exp: v.Exp - pad - 19*int64(k)}), "extra-low-edge-words"
	case 9: // same length, two words differ by +d and -d (the differences cancel in a sum)
		pad := (19 - oracle.Digits(v.Coef)%19) % 19
		c := new(big.Int).Mul(v.Coef, oracle.Pow10(pad))
		nw := int(oracle.Digits(c) / 19)
		if nw < 2 {
			c.Mul(c, oracle.Pow10(19*int64(3-nw)))
			pad += 19 * int64(3-nw)
			nw = 3
		}
		base := new(big.Int).Set(c)
		i := r.Intn(nw - 1)
		j := i + 1 + r.Intn(nw-1-i)
		d := big.NewInt(int64(r.Range(1, 9)))
		c.Add(c, new(big.Int).Mul(d, oracle.Pow10(19*int64(j))))
		c.Sub(c, new(big.Int).Mul(d, oracle.Pow10(19*int64(i))))
		if c.Sign() <= 0 || oracle.Digits(c) != oracle.Digits(base) {
			return v, "equal"
		}
		return inRange(oracle.Val{Form: oracle.Finite, Neg: v.Neg, Coef: c, Exp: v.Exp - pad}), "word-differences-cancel"
	case 0:
		return v, "equal"
	case 1:
		return v.Negate(), "negated"
	case 2: // differs in the last digit only
		c := new(big.Int).Add(v.Coef, big.NewInt(int64(1-2*r.Intn(2))))
		if c.Sign() <= 0 {
			c = big.NewInt(1)
		}
		return inRange(oracle.Val{Form: oracle.Finite, Neg: v.Neg, Coef: c, Exp: v.Exp}), "last-digit"
	case 3: // an extra far-away digit on a longer mantissa
		k := int64(r.Range(1, 90))
		c := new(big.Int).Mul(v.Coef, oracle.Pow10(k))
		if r.Bool() {
			c.Add(c, big.NewInt(1))
		} else {
			c.Sub(c, big.NewInt(1))
		}
		return inRange(oracle.Val{Form: oracle.Finite, Neg: v.Neg, Coef: c, Exp: v.Exp - k}), "longer-mantissa"
	case 4:
		w := v
		w.Exp += int64(1 - 2*r.Intn(2))
		return inRange(w), "exponent+-1"
	case 5: // same digits, trailing zeros moved into the exponent
		k := int64(r.Range(1, 60))
		return oracle.Val{Form: oracle.Finite, Neg: v.Neg, Coef: new(big.Int).Mul(v.Coef, oracle.Pow10(k)), Exp: v.Exp - k}, "equal-trailing-zeros"
	}
	return genCmpVal(r), "unrelated"
}

func sgn(x int) int {
	switch {
	case x < 0:
		return -1
	case x > 0:
		return 1
	}
	return 0
}

var c16AltA *oracle.Val // set by genRelated when the relation also replaces the first value

func c16Case(c *hx.Ctx, r *hx.RNG, idx int64) {
	a := inRange(genCmpVal(r))
	c16AltA = nil
	b, rel := genRelated(r, a)
	if c16AltA != nil {
		a = inRange(*c16AltA)
	}
	third, _ := genRelated(r, b)
	if r.Bool() {
		third = genCmpVal(r)
	}
	third = inRange(third)
	vals := []oracle.Val{a, b, third}
	var ds [3]*decimal.Decimal
	var routes [3]string
	for i, v := range vals {
		ds[i], routes[i] = mkVia(r, v)
	}
	what := fmt.Sprintf("a=%s b=%s c=%s (b is %s; routes %v)", a.Full(), b.Full(), third.Full(), rel, routes)
	c.Note(what)
	if c.Verbose {
		fmt.Println("case:", what)
	}
	c.Eval(hx.HashStr(what), rel != "unrelated", "pair/"+rel)
	for _, rt := range routes {
		c.Classes["route/"+rt]++
	}
	if c.WantSample("pair/" + rel) {
		c.Sample("pair/"+rel, what)
	}
	pre := [3]hx.State{hx.Snapshot(ds[0]), hx.Snapshot(ds[1]), hx.Snapshot(ds[2])}
	var got [3][3]int
	pi := hx.Try(func() {
		for i := 0; i < 3; i++ {
			for j := 0; j < 3; j++ {
				got[i][j] = ds[i].Cmp(ds[j])
			}
		}
	})
	if pi != nil {
		c.Violate("panic", fmt.Sprintf("%s: %s panic %q", what, pi.Class, pi.Text), "")
		return
	}
	for i := 0; i < 3; i++ {
		if !hx.SameState(pre[i], hx.Snapshot(ds[i])) {
			c.Violate("operand-modified", what+": Cmp changed an operand", "")
			return
		}
		for j := 0; j < 3; j++ {
			c.Count("comparisons", 1)
			want := oracle.Cmp(vals[i], vals[j])
			if got[i][j] != want {
				c.Violate("wrong-order", fmt.Sprintf("%s: Cmp(%d,%d) = %d, exact order says %d", what, i, j, got[i][j], want), "")
				return
			}
			if got[i][j] != -got[j][i] {
				c.Violate("not-antisymmetric", fmt.Sprintf("%s: Cmp(%d,%d) = %d but Cmp(%d,%d) = %d", what, i, j, got[i][j], j, i, got[j][i]), "")
				return
			}
		}
	}
	// transitivity on the sorted triple (implied by agreement with the exact order; checked on the library's answers alone)
	ord := []int{0, 1, 2}
	sort.Slice(ord, func(x, y int) bool { return got[ord[x]][ord[y]] < 0 })
	if got[ord[0]][ord[1]] > 0 || got[ord[1]][ord[2]] > 0 || got[ord[0]][ord[2]] > 0 {
		c.Violate("not-transitive", what+": the library's own answers are not transitive", "")
		return
	}
	// Sign, Signbit, IsZero, IsInf consistent with the order
	zero := new(decimal.Decimal)
	for i, d := range ds {
		v := vals[i]
		wantSign := 0
		if v.Form != oracle.Zero {
			wantSign = 1
			if v.Neg {
				wantSign = -1
			}
		}
		if d.Sign() != wantSign || d.Sign() != sgn(d.Cmp(zero)) {
			c.Violate("sign-inconsistent", fmt.Sprintf("%s: value %d has Sign %d, Cmp with 0 gives %d, exact %d", what, i, d.Sign(), d.Cmp(zero), wantSign), "")
		}
		if d.Signbit() != v.Neg || d.IsZero() != (v.Form == oracle.Zero) || d.IsInf() != (v.Form == oracle.Inf) {
			c.Violate("predicate-inconsistent", fmt.Sprintf("%s: value %d: Signbit=%v IsZero=%v IsInf=%v", what, i, d.Signbit(), d.IsZero(), d.IsInf()), "")
		}
	}
}
