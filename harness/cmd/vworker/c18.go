package main

import (
	"fmt"
	"math/big"
	"runtime"
	"sync"
	"sync/atomic"
	"time"

	"github.com/db47h/decimal"

	"verifharness/hx"
	"verifharness/oracle"
)

// C18 — Decimals can be shared read-only between goroutines. This engine is
// built with -race: the race detector decides "no data race"; the engine itself
// decides "no operand modified" and "every result equals the sequential one".

func init() {
	engines["C18"] = &engine{N: tierN(0, 0), Whole: c18Whole}
}

const c18NumOperands = 35

var c18OpNames = []string{"Add", "Sub", "Mul", "Sqr", "Quo", "FMA", "Sqrt", "Cmp", "Text", "Format", "Float64", "Int", "Rat", "Gob", "MarshalText", "Set", "Float",
	// operations that read shared operands or constant arguments and write only to the goroutine's own receiver: whatever
	// state the library keeps outside its arguments (tables, scratch, readers) is shared between the goroutines
	"Parse", "ParseBinary", "GobRoundTrip", "SetRat", "SetInt", "SetFloat64", "SetFloat", "FormatWidth", "IntLong",
	"FMAacc"} // the accumulation idiom a.FMA(x, y, a): the receiver is the addend (a temporary holds the product)

// constant arguments of the writer-side jobs (built once per process, never modified)
var c18Args struct {
	lits, bins []string
	rats       []*big.Rat
	ints       []*big.Int
	f64s       []float64
	bfs        []*big.Float
	longs      []*decimal.Decimal // integers far longer than their mantissa: Int multiplies by a power of ten
}

func c18MakeArgs(r *hx.RNG) {
	a := &c18Args
	for i := 0; i < 24; i++ {
		d := string(r.Digits(r.Range(1, 200)))
		a.lits = append(a.lits, d[:1]+"."+d[1:]+fmt.Sprintf("e%d", r.Range(-400, 400)))
		a.bins = append(a.bins, []string{"0x1p-100", "3p-300", "0x1p-1074", "0b1.01p+200", "0x1.8p+1000", "0o17.4p-77", "7p+64", "0x.8p-65", "12345p-200", "0x1p+4000"}[i%10])
		a.rats = append(a.rats, new(big.Rat).SetFrac(hx.CoefOf(r.Digits(r.Range(1, 80))), hx.CoefOf(r.Digits(r.Range(1, 80)))))
		a.ints = append(a.ints, hx.CoefOf(r.Digits(r.Range(1, 400))))
		a.f64s = append(a.f64s, []float64{1.5, 1e300, 5e-324, 0.1, 123456789.125, 2.2250738585072014e-308, 1e22, -7.25e-200}[i%8])
		bf := new(big.Float).SetPrec(uint(r.Range(10, 400))).SetInt(hx.CoefOf(r.Digits(r.Range(1, 60))))
		a.bfs = append(a.bfs, bf.SetMantExp(bf, r.Range(-2000, 2000)))
		a.longs = append(a.longs, hx.Mk(r.Finite(r.Range(1, 40), int64([]int{300, 5000, 20000, 77, 1234, 9000}[i%6])), 0, 0))
	}
}

type c18Job struct {
	op         int
	x, y, u    int
	prec, mode int
}

// c18Monitor is the monitor's own state: atomics only, so that it never becomes the race.
type c18Monitor struct {
	busyMask  [c18NumOperands]atomic.Uint64 // bit i set while an operation of kind i reads the operand
	pairSeen  [32][32]atomic.Uint32         // operation kinds observed overlapping on a common operand
	overlaps  atomic.Int64
	mismatch  atomic.Int64
	firstBad  atomic.Value
	yields    atomic.Int64
	gcs       atomic.Int64
	hookCalls atomic.Int64
	rnd       atomic.Uint64
}

func (m *c18Monitor) enter(op int, ops ...int) {
	for _, o := range ops {
		old := m.busyMask[o].Or(1 << uint(op))
		if old != 0 {
			m.overlaps.Add(1)
			for b := 0; b < len(c18OpNames); b++ {
				if old&(1<<uint(b)) != 0 {
					m.pairSeen[op][b].Store(1)
				}
			}
		}
	}
}

func (m *c18Monitor) leave(op int, ops ...int) {
	// several goroutines may run the same kind on the same operand: the bit is only a hint for the overlap statistics,
	// cleared optimistically (statistics, not a verdict)
	for _, o := range ops {
		m.busyMask[o].And(^(uint64(1) << uint(op)))
	}
}

func (m *c18Monitor) next() uint64 {
	x := m.rnd.Add(0x9e3779b97f4a7c15)
	x = (x ^ (x >> 30)) * 0xbf58476d1ce4e5b9
	x = (x ^ (x >> 27)) * 0x94d049bb133111eb
	return x ^ (x >> 31)
}

func c18Exec(j c18Job, ops []*decimal.Decimal) string {
	x, y, u := ops[j.x], ops[j.y], ops[j.u]
	z := new(decimal.Decimal).SetPrec(uint(j.prec)).SetMode(decimal.RoundingMode(j.mode))
	out := ""
	pi := hx.Try(func() {
		switch c18OpNames[j.op] {
		case "Add":
			z.Add(x, y)
		case "Sub":
			z.Sub(x, y)
		case "Mul":
			z.Mul(x, y)
		case "Sqr":
			z.Mul(x, x)
		case "Quo":
			z.Quo(x, y)
		case "FMA":
			z.FMA(x, y, u)
		case "Sqrt":
			z.Sqrt(x)
		case "Set":
			z.Set(x)
		case "FMAacc":
			z.Set(u)
			z.FMA(x, y, z)
			z.FMA(y, x, z)
		case "Parse":
			if _, ok := z.SetString(c18Args.lits[j.u%len(c18Args.lits)]); !ok {
				out = "rejected"
			}
		case "ParseBinary":
			if _, _, err := z.Parse(c18Args.bins[j.u%len(c18Args.bins)], 0); err != nil {
				out = "rejected: " + err.Error()
			}
		case "GobRoundTrip":
			b, err := x.GobEncode()
			if err == nil {
				err = z.GobDecode(b)
			}
			if err != nil {
				out = "error: " + err.Error()
			}
		case "SetRat":
			z.SetRat(c18Args.rats[j.u%len(c18Args.rats)])
		case "SetInt":
			z.SetInt(c18Args.ints[j.u%len(c18Args.ints)])
		case "SetFloat64":
			z.SetFloat64(c18Args.f64s[j.u%len(c18Args.f64s)])
		case "SetFloat":
			z.SetFloat(c18Args.bfs[j.u%len(c18Args.bfs)])
		case "FormatWidth":
			out = fmt.Sprintf("%030.5f|%-30.3e|%+40.10g|%0200.2e|% 150.1f|", x, y, x, y, y)
		case "IntLong":
			i, a := c18Args.longs[j.u%len(c18Args.longs)].Int(nil)
			out = fmt.Sprint(i.BitLen(), new(big.Int).Rem(i, big.NewInt(1000000007)), a)
		case "Cmp":
			out = fmt.Sprint(x.Cmp(y), y.Cmp(x), x.Sign(), x.IsInt(), x.MinPrec())
		case "Text":
			out = x.Text('g', -1) + "|" + x.Text('e', 20) + "|" + string(x.Append(nil, 'p', 0))
		case "Format":
			out = fmt.Sprintf("%v|%+.30e|%-40.5g|", x, x, x)
		case "Float64":
			f, a := x.Float64()
			g, b := x.Float32()
			out = fmt.Sprint(f, a, g, b)
		case "Float":
			out = x.Float(nil).Text('p', 0)
		case "Int":
			i, a := x.Int(nil)
			i64, b := x.Int64()
			u64, cc := x.Uint64()
			out = fmt.Sprint(i, a, i64, b, u64, cc)
		case "Rat":
			q, a := x.Rat(nil)
			out = fmt.Sprint(q, a)
		case "Gob":
			b, _ := x.GobEncode()
			out = fmt.Sprintf("%x", b)
		case "MarshalText":
			b, _ := x.MarshalText()
			out = string(b)
		}
	})
	if pi != nil {
		return "panic:" + pi.Class + ":" + pi.Text
	}
	if out == "" {
		out = hx.RawOf(z).String()
	}
	return out
}

func c18Whole(c *hx.Ctx) {
	r := hx.NewRNG(c.Seed, "C18", int64(c.Shard))
	// shared operands: 5 .. 6 000 digits so that Karatsuba, squaring and both division algorithms take pooled scratch
	sizes := []int{5, 19, 40, 200, 600, 700, 1200, 1300, 2000, 2100, 2500, 3000, 3900, 4000, 6000, 6000, 30, 100, 20, 1000}
	var vals []oracle.Val
	for _, n := range sizes {
		v := r.Finite(n, int64(r.Range(-20, 20)))
		if len(vals)%3 != 0 {
			v.Neg = false
		}
		vals = append(vals, v)
	}
	vals = append(vals, oracle.Val{Form: oracle.Zero}, oracle.Val{Form: oracle.Zero, Neg: true}, oracle.Val{Form: oracle.Inf}, oracle.Val{Form: oracle.Finite, Coef: big.NewInt(1), Exp: 0})
	// integers whose mantissa is exactly the integer part (2, 3 and 6 words), a value with zero low words, a power of ten
	for _, n := range []int{38, 57, 114} {
		v := r.Finite(n, int64(n))
		v.Neg = false
		vals = append(vals, v)
	}
	vals = append(vals,
		oracle.Val{Form: oracle.Finite, Coef: new(big.Int).Mul(hx.CoefOf(r.Digits(30)), oracle.Pow10(57)), Exp: -60},
		oracle.Val{Form: oracle.Finite, Coef: big.NewInt(1), Exp: 40})
	// values in the top and bottom decade of the exponent range (conversions to integers, rationals and the %f layout
	// of these would need 2^31 digits: the job table keeps them away from such operands)
	extremeFrom := len(vals)
	vals = append(vals, r.Finite(40, oracle.MaxExp), r.Finite(25, oracle.MinExp), r.Finite(60, oracle.MaxExp-3))
	extremeTo := len(vals)
	// zeros and an infinity in variables that held finite values before (leftover exponent and mantissa fields)
	vals = append(vals, oracle.Val{Form: oracle.Zero}, oracle.Val{Form: oracle.Zero, Neg: true}, oracle.Val{Form: oracle.Inf, Neg: true})
	ops := make([]*decimal.Decimal, len(vals))
	for i, v := range vals {
		if i >= len(vals)-3 {
			d := hx.Mk(r.Finite(r.Range(5, 60), int64(r.Range(3, 40))), 0, r.Mode())
			if v.Form == oracle.Zero {
				d.Sub(d, d)
				if v.Neg {
					d.Neg(d)
				}
			} else {
				d.SetInf(v.Neg)
			}
			ops[i] = d
			continue
		}
		ops[i] = hx.Mk(v, digitsOf(v)+uint(r.Intn(20)), r.Mode())
	}
	c18MakeArgs(r)
	// job table
	njobs := 520
	jobs := make([]c18Job, njobs)
	for i := range jobs {
		j := c18Job{op: r.Intn(len(c18OpNames)), x: r.Intn(len(ops)), y: r.Intn(len(ops)), u: r.Intn(len(ops)), prec: r.Range(1, 120), mode: r.Mode()}
		name := c18OpNames[j.op]
		if r.Chance(40) {
			j.prec = []int{600, 1300, 2500, 4000}[r.Intn(4)]
		}
		if name == "Sqrt" {
			keepNeg := r.Chance(25) // a negative operand: the call panics with ErrNaN (recovered by the job) while others are inside Sqrt
			for (vals[j.x].Neg && !(keepNeg && vals[j.x].Form == oracle.Finite)) || digitsOf(vals[j.x]) > 1400 {
				j.x = r.Intn(len(ops))
			}
			if j.prec > 400 {
				j.prec = r.Range(1, 400)
			}
		}
		switch name {
		case "Int", "Rat", "FormatWidth", "Add", "Sub", "FMA", "FMAacc": // (sums align the operands digit by digit: a 2^31-digit gap)
			for j.x >= extremeFrom && j.x < extremeTo {
				j.x = r.Intn(len(ops))
			}
			for j.y >= extremeFrom && j.y < extremeTo {
				j.y = r.Intn(len(ops))
			}
			for j.u >= extremeFrom && j.u < extremeTo {
				j.u = r.Intn(len(ops))
			}
		}
		if name == "Quo" && r.Bool() { // long divisors: recursive division with pooled temporaries
			j.y = 8 + r.Intn(8)
			j.x = 12 + r.Intn(4)
		}
		if name == "Mul" && r.Bool() { // Karatsuba-sized products
			j.x, j.y = 6+r.Intn(10), 6+r.Intn(10)
		}
		jobs[i] = j
	}
	before := make([]hx.Raw, len(ops))
	for i, o := range ops {
		before[i] = hx.RawOf(o)
	}
	// Cold start: the first operation of every kind this process ever executes runs in several goroutines at once,
	// released together (state that the library builds on first use must be built safely). The results are compared
	// with the sequential reference below.
	var cold []int
	seenKind := map[int]bool{}
	for i, j := range jobs {
		if !seenKind[j.op] && j.prec <= 400 {
			seenKind[j.op] = true
			cold = append(cold, i)
		}
	}
	const coldG = 8
	coldRes := make([][]string, coldG)
	{
		c.Begin(0, fmt.Sprintf("cold start: %d goroutines x first use of %d operation kinds", coldG, len(cold)))
		start := make(chan struct{})
		var wg sync.WaitGroup
		for g := 0; g < coldG; g++ {
			coldRes[g] = make([]string, len(cold))
			wg.Add(1)
			go func(g int) {
				defer wg.Done()
				<-start
				for n := range cold {
					i := (n + (g/2)*3) % len(cold) // goroutines 2k and 2k+1 walk the list in the same order: same kind at the same time
					coldRes[g][i] = c18Exec(jobs[cold[i]], ops)
				}
			}(g)
		}
		close(start)
		wg.Wait()
		c.Count("cold_start_operations", int64(coldG*len(cold)))
	}
	// sequential reference, computed twice (a getter that writes would already show here)
	ref := make([]string, njobs)
	for i, j := range jobs {
		c.Begin(int64(i), fmt.Sprintf("sequential reference job %d %s(x=#%d y=#%d u=#%d prec=%d mode=%d)", i, c18OpNames[j.op], j.x, j.y, j.u, j.prec, j.mode))
		ref[i] = c18Exec(j, ops)
		// a read-only use must leave its operands bit-identical (checked at once: a damaged operand may make a later job loop)
		for _, oi := range []int{j.x, j.y, j.u} {
			if !before[oi].Identical(hx.RawOf(ops[oi])) {
				c.Violate("operand-modified", fmt.Sprintf("operand %d was modified by %s used sequentially as a read-only operation: %s -> %s", oi, c18OpNames[j.op], briefRaw(before[oi]), briefRaw(hx.RawOf(ops[oi])))+expFields(before[oi], hx.RawOf(ops[oi])), "")
				return
			}
		}
	}
	for i, j := range jobs {
		if got := c18Exec(j, ops); got != ref[i] {
			c.Begin(int64(i), "sequential determinism")
			c.Violate("not-deterministic", fmt.Sprintf("job %d (%s) gives different results when repeated sequentially", i, c18OpNames[j.op]), "")
			return
		}
	}
	for i, o := range ops {
		if !before[i].Identical(hx.RawOf(o)) {
			c.Begin(int64(i), "sequential operand check")
			c.Violate("operand-modified", fmt.Sprintf("operand %d was modified by sequential use as an operand: %s -> %s", i, briefRaw(before[i]), briefRaw(hx.RawOf(o)))+expFields(before[i], hx.RawOf(o)), "")
			return
		}
	}
	c.Count("sequential_reference_jobs", int64(njobs))
	for g := range coldRes {
		for n, i := range cold {
			if coldRes[g][n] != ref[i] {
				c.Begin(int64(i), "cold start")
				j := jobs[i]
				c.Violate("concurrent-result-differs", fmt.Sprintf("cold start: job %d %s(x=#%d y=#%d u=#%d prec=%d mode=%d) run as one of the first operations of the process in %d goroutines gave %.300q, sequentially %.300q", i, c18OpNames[j.op], j.x, j.y, j.u, j.prec, j.mode, coldG, coldRes[g][n], ref[i]), "")
				return
			}
		}
	}

	reps := 3
	if c.Tier == "thorough" {
		reps = 60
	}
	mon := &c18Monitor{}
	mon.rnd.Store(uint64(c.Seed)*977 + uint64(c.Shard))
	configs := []struct{ procs, goroutines int }{{2, 4}, {4, 16}, {16, 16}, {16, 64}}
	caseNo := int64(0)
	for rep := 0; rep < reps; rep++ {
		for ci, cf := range configs {
			caseNo++
			c.Begin(caseNo, fmt.Sprintf("GOMAXPROCS=%d goroutines=%d rep=%d", cf.procs, cf.goroutines, rep))
			old := runtime.GOMAXPROCS(cf.procs)
			// hooks: poison the scratch pool, yield / sleep / collect garbage at the pool sites
			inject := (rep+ci)%2 == 0
			if inject {
				decimal.VerifPoolFn = poison
				decimal.VerifHitFn = func(site int) {
					if site != decimal.VerifSitePoolGet && site != decimal.VerifSitePoolPut {
						return
					}
					mon.hookCalls.Add(1)
					switch v := mon.next() % 64; {
					case v < 24:
						runtime.Gosched()
						mon.yields.Add(1)
					case v < 28:
						time.Sleep(time.Duration(mon.next()%50) * time.Microsecond)
						mon.yields.Add(1)
					case v == 63:
						runtime.GC() // empties the pool
						mon.gcs.Add(1)
					}
				}
			}
			var wg sync.WaitGroup
			for g := 0; g < cf.goroutines; g++ {
				wg.Add(1)
				go func(g int) {
					defer wg.Done()
					gr := hx.NewRNG(c.Seed+int64(rep), "C18-goroutine", int64(g*1000+ci))
					per := njobs / 2
					if cf.goroutines > 16 {
						per = njobs / 6
					}
					for n := 0; n < per; n++ {
						ji := gr.Intn(njobs)
						j := jobs[ji]
						// The overlap statistics are atomics, and an atomic operation orders the goroutines that perform it
						// in the eyes of the race detector: they are kept only in the configurations that inject delays
						// (whose hook synchronises anyway); in the others nothing but the WaitGroup orders the goroutines.
						if inject {
							mon.enter(j.op, j.x, j.y, j.u)
						}
						got := c18Exec(j, ops)
						if inject {
							mon.leave(j.op, j.x, j.y, j.u)
						}
						if got != ref[ji] {
							if mon.mismatch.Add(1) == 1 {
								mon.firstBad.Store(fmt.Sprintf("job %d %s(x=#%d y=#%d u=#%d prec=%d mode=%d) under GOMAXPROCS=%d with %d goroutines (hooks=%v): concurrent result %.300q, sequential %.300q", ji, c18OpNames[j.op], j.x, j.y, j.u, j.prec, j.mode, cf.procs, cf.goroutines, inject, got, ref[ji]))
							}
						}
					}
				}(g)
			}
			wg.Wait()
			decimal.VerifHitFn, decimal.VerifPoolFn = nil, nil
			runtime.GOMAXPROCS(old)
			c.Eval(uint64(caseNo)<<20|uint64(c.Shard), true, fmt.Sprintf("config/procs%d-goroutines%d", cf.procs, cf.goroutines))
			c.Count("concurrent_operations", int64(cf.goroutines)*int64(map[bool]int{true: njobs / 6, false: njobs / 2}[cf.goroutines > 16]))
			for i, o := range ops {
				if !before[i].Identical(hx.RawOf(o)) {
					c.Violate("operand-modified", fmt.Sprintf("shared operand %d changed during concurrent read-only use: %s -> %s", i, briefRaw(before[i]), briefRaw(hx.RawOf(o)))+expFields(before[i], hx.RawOf(o)), "")
					return
				}
			}
			if mon.mismatch.Load() > 0 {
				c.Violate("concurrent-result-differs", fmt.Sprintf("%d result(s) differ from the sequential ones; first: %v", mon.mismatch.Load(), mon.firstBad.Load()), "")
				return
			}
		}
	}
	// Large buffers: shared operands of 70 000 .. 1 000 000 digits. Products, squares and quotients of this size take
	// scratch space of a megabyte and more, and the conversions to text work in digit buffers beyond 64 KiB - sizes at
	// which a library may treat its buffers differently from the small ones above. Every goroutine runs every job.
	{
		lsizes := []int{1000000, 900000, 100000, 70000}
		lops := make([]*decimal.Decimal, len(lsizes))
		for i, n := range lsizes {
			w := make([]decimal.Word, (n+18)/19) // (built from words: parsing a million digits takes half a minute under the race detector)
			for k := range w {
				w[k] = decimal.Word(r.U64() % wb)
			}
			w[len(w)-1] = decimal.Word(wb/10 + r.U64()%(wb-wb/10))
			lops[i] = new(decimal.Decimal).SetPrec(uint(len(w)*19)).SetMode(decimal.RoundingMode(r.Mode())).SetBitsExp(w, int64(r.Range(-20, 20)))
			if i == 1 {
				lops[i].Neg(lops[i])
			}
		}
		opIdx := func(name string) int {
			for i, n := range c18OpNames {
				if n == name {
					return i
				}
			}
			panic("no such operation: " + name)
		}
		ljobs := []c18Job{
			{op: opIdx("Mul"), x: 0, y: 1, prec: 2000, mode: r.Mode()},
			{op: opIdx("Sqr"), x: 0, prec: 500, mode: r.Mode()},
			{op: opIdx("Mul"), x: 1, y: 0, prec: 40, mode: r.Mode()},
			{op: opIdx("Quo"), x: 0, y: 2, prec: 150000, mode: r.Mode()},
			{op: opIdx("Text"), x: 2}, {op: opIdx("Text"), x: 3}, {op: opIdx("MarshalText"), x: 2}, {op: opIdx("MarshalText"), x: 3},
			{op: opIdx("Format"), x: 3}, {op: opIdx("Gob"), x: 3}, {op: opIdx("Cmp"), x: 0, y: 1}, {op: opIdx("Int"), x: 3},
		}
		lbefore := make([]hx.Raw, len(lops))
		for i, o := range lops {
			lbefore[i] = hx.RawOf(o)
		}
		sum := func(s string) string {
			return fmt.Sprintf("%d bytes, hash %016x, starts %.60q", len(s), hx.HashStr(s), s)
		}
		lref := make([]string, len(ljobs))
		for i, j := range ljobs {
			caseNo++
			c.Begin(caseNo, fmt.Sprintf("large buffers: sequential reference job %d %s(x=#%d y=#%d prec=%d) over operands of %v digits", i, c18OpNames[j.op], j.x, j.y, j.prec, lsizes))
			lref[i] = sum(c18Exec(j, lops))
		}
		lreps := 1
		if c.Tier == "thorough" {
			lreps = 4
		}
		const lg = 4
		for rep := 0; rep < lreps; rep++ {
			caseNo++
			c.Begin(caseNo, fmt.Sprintf("large buffers: %d goroutines x %d jobs over operands of %v digits, rep=%d", lg, len(ljobs), lsizes, rep))
			start := make(chan struct{})
			var wg sync.WaitGroup
			for g := 0; g < lg; g++ {
				wg.Add(1)
				go func(g int) {
					defer wg.Done()
					<-start
					for n := range ljobs {
						ji := (n + (g/2)*5) % len(ljobs) // goroutines 2k and 2k+1: the same job at the same time
						j := ljobs[ji]
						if got := sum(c18Exec(j, lops)); got != lref[ji] {
							if mon.mismatch.Add(1) == 1 {
								mon.firstBad.Store(fmt.Sprintf("large buffers: job %d %s(x=#%d y=#%d prec=%d) over operands of %v digits in %d goroutines: concurrent result %s, sequential %s", ji, c18OpNames[j.op], j.x, j.y, j.prec, lsizes, lg, got, lref[ji]))
							}
						}
					}
				}(g)
			}
			close(start)
			wg.Wait()
			c.Eval(uint64(caseNo)<<20|uint64(c.Shard), true, "config/large-buffers")
			c.Count("large_buffer_operations", int64(lg*len(ljobs)))
			for i, o := range lops {
				if !lbefore[i].Identical(hx.RawOf(o)) {
					c.Violate("operand-modified", fmt.Sprintf("large buffers: shared operand %d (%d digits) changed during concurrent read-only use", i, lsizes[i]), "")
					return
				}
			}
			if mon.mismatch.Load() > 0 {
				c.Violate("concurrent-result-differs", fmt.Sprintf("%d result(s) differ from the sequential ones; first: %v", mon.mismatch.Load(), mon.firstBad.Load()), "")
				return
			}
		}
	}
	// Pool churn: the scratch pool itself under load. Quotients of a few words by shared divisors of 8 200 .. 9 000
	// words take three large scratch buffers each and only some ten microseconds of arithmetic: sixteen goroutines
	// put the pool through hundreds of thousands of get/put pairs per second. Besides the results (each compared with
	// the sequential one) the pool hook keeps an ownership table: a buffer handed out while it is still out is a
	// violation whether or not a result shows it. (The table synchronises: this phase is about the pool's own
	// algorithm, the phases above are the ones that leave the goroutines unordered for the race detector.)
	{
		var divisors, nums []*decimal.Decimal
		for _, n := range []int{8200, 8192, 9000} {
			w := make([]decimal.Word, n)
			for k := range w {
				w[k] = decimal.Word(r.U64() % wb)
			}
			w[n-1] = decimal.Word(wb/10 + r.U64()%(wb-wb/10))
			divisors = append(divisors, new(decimal.Decimal).SetPrec(uint(n*19)).SetBitsExp(w, int64(r.Range(-5, 5))))
		}
		for i := 0; i < 4; i++ {
			nums = append(nums, hx.Mk(r.Finite(r.Range(1, 57), int64(r.Range(-5, 5))), 0, r.Mode()))
		}
		type cj struct{ x, y, prec, mode int }
		var cjobs []cj
		for x := range nums {
			for y := range divisors {
				for _, p := range []int{1, 19, 38} {
					cjobs = append(cjobs, cj{x, y, p, r.Mode()})
				}
			}
		}
		exec := func(j cj) string {
			z := new(decimal.Decimal).SetPrec(uint(j.prec)).SetMode(decimal.RoundingMode(j.mode))
			if pi := hx.Try(func() { z.Quo(nums[j.x], divisors[j.y]) }); pi != nil {
				return "panic:" + pi.Class + ":" + pi.Text
			}
			return hx.RawOf(z).String()
		}
		cref := make([]string, len(cjobs))
		for i, j := range cjobs {
			cref[i] = exec(j)
		}
		dbefore := make([]hx.Raw, len(divisors))
		for i, o := range divisors {
			dbefore[i] = hx.RawOf(o)
		}
		per := 750
		if c.Tier == "thorough" {
			per = 40000
		}
		if portableKernels { // (every word loop is instrumented by the race detector: ten times the cost per quotient)
			per /= 15
		}
		const cg = 16
		caseNo++
		c.Begin(caseNo, fmt.Sprintf("pool churn: %d goroutines x %d quotients of short values by shared divisors of 8200, 8192 and 9000 words", cg, per))
		var owned sync.Map
		var double, gets atomic.Int64
		var firstDouble atomic.Value
		decimal.VerifPoolFn = func(buf []decimal.Word, put bool) {
			if cap(buf) == 0 {
				return
			}
			key := &buf[:1][0]
			if put {
				owned.Delete(key)
				return
			}
			gets.Add(1)
			if _, loaded := owned.LoadOrStore(key, true); loaded {
				if double.Add(1) == 1 {
					firstDouble.Store(fmt.Sprintf("a scratch buffer of %d words was handed out while another user still held it", cap(buf)))
				}
			}
		}
		old := runtime.GOMAXPROCS(16)
		start := make(chan struct{})
		var wg sync.WaitGroup
		for g := 0; g < cg; g++ {
			wg.Add(1)
			go func(g int) {
				defer wg.Done()
				gr := hx.NewRNG(c.Seed, "C18-churn", int64(g))
				<-start
				for n := 0; n < per; n++ {
					ji := gr.Intn(len(cjobs))
					if got := exec(cjobs[ji]); got != cref[ji] {
						if mon.mismatch.Add(1) == 1 {
							j := cjobs[ji]
							mon.firstBad.Store(fmt.Sprintf("pool churn: Quo(short value #%d, %d-word divisor #%d) prec=%d mode=%d in %d goroutines: concurrent result %.200q, sequential %.200q", j.x, len(dbefore[j.y].W), j.y, j.prec, j.mode, cg, got, cref[ji]))
						}
						return
					}
				}
			}(g)
		}
		close(start)
		wg.Wait()
		runtime.GOMAXPROCS(old)
		decimal.VerifPoolFn = nil
		c.Eval(uint64(caseNo)<<20|uint64(c.Shard), true, "config/pool-churn")
		c.Count("pool_churn_operations", int64(cg*per))
		c.Count("pool_churn_buffers_handed_out", gets.Load())
		if double.Load() > 0 {
			c.Violate("scratch-buffer-shared", fmt.Sprintf("pool churn: %d time(s) %v", double.Load(), firstDouble.Load()), "")
			return
		}
		for i, o := range divisors {
			if !dbefore[i].Identical(hx.RawOf(o)) {
				c.Violate("operand-modified", fmt.Sprintf("pool churn: shared divisor %d changed during concurrent read-only use", i), "")
				return
			}
		}
		if mon.mismatch.Load() > 0 {
			c.Violate("concurrent-result-differs", fmt.Sprintf("%d result(s) differ from the sequential ones; first: %v", mon.mismatch.Load(), mon.firstBad.Load()), "")
			return
		}
	}
	c.Count("overlapping_operations_on_a_shared_operand", mon.overlaps.Load())
	distinct := 0
	for a := range mon.pairSeen {
		for b := range mon.pairSeen[a] {
			if mon.pairSeen[a][b].Load() != 0 {
				distinct++
			}
		}
	}
	c.Count("distinct_overlapping_operation_pairs", int64(distinct))
	c.Count("hook_calls_at_pool_sites", mon.hookCalls.Load())
	c.Count("injected_yields_and_sleeps", mon.yields.Load())
	c.Count("injected_gc_cycles", mon.gcs.Load())
	old := decimal.VerifResetHits()
	c.Count("pool_gets", int64(old[decimal.VerifSitePoolGet]))
	c.Count("hit_karatsuba", int64(old[decimal.VerifSiteKaratsuba]))
	c.Count("hit_div_recursive", int64(old[decimal.VerifSiteDivRecursive]))
	c.Sample("workload", fmt.Sprintf("%d shared operands (%v digits), %d jobs over %v, configurations %v x %d repetition(s)", len(ops), sizes, njobs, c18OpNames, configs, reps))
}

// expFields names the exponent fields of two snapshots when they are all that differs (leftover field of a zero or an infinity).
func expFields(a, b hx.Raw) string {
	if a.Exp != b.Exp && a.Class != 1 {
		return fmt.Sprintf(" (exponent field, as BitsExp shows it: %d -> %d)", a.Exp, b.Exp)
	}
	return ""
}
