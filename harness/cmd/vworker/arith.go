package main

import (
	"bytes"
	"fmt"
	"hash/fnv"
	"math/big"
	"runtime"
	"runtime/debug"

	"github.com/db47h/decimal"

	"verifharness/hx"
	"verifharness/oracle"
)

const maxPrec = 4294967295

// opCase is one arithmetic operation instance on a fresh receiver.
type opCase struct {
	op      string // Add Sub Mul Quo Set SetPrec Neg Abs FMA Sqrt
	x, y, u oracle.Val
	sameXY  bool // x and y are the same variable (squaring path)
	p       int64
	mode    int
	class   string
	// operand attributes (randomised, must not matter)
	xp, yp, up uint
	xm, ym, um int
	// previous contents of the receiver (must not matter): 0 fresh, 1 an inexact quotient (stale Below/Above accuracy),
	// 2 an infinity, 3 a longer value rounded into it, 4 a negative zero
	dirty     int
	noSoil    bool   // C10's reference execution: a truly fresh receiver
	hugeOK    bool   // the generator allows a receiver precision at the top of the uint32 range
	spareCap  int    // extra capacity (words) of the buffer of an operand that is also the receiver
	opSeed    int64  // seed of the generator used while building operands (stale specials)
	lastCanon string // walker verdict on the receiver after the last execShape call ("" = canonical)
}

var (
	decOne   = new(decimal.Decimal).SetInt64(1)
	decThree = new(decimal.Decimal).SetInt64(3)
	decSeven = new(decimal.Decimal).SetInt64(-7)
)

// soil gives a receiver previous contents, including a non-Exact accuracy.
func soil(z *decimal.Decimal, kind int) {
	if z.Prec() == 0 || z.Prec() > 20000 {
		return
	}
	switch kind {
	case 1:
		z.Quo(decOne, decThree)
	case 2:
		z.SetInf(true)
	case 3:
		z.Quo(decThree, decSeven)
		z.SetPrec(z.Prec()) // keeps the value, resets nothing else
	case 4:
		z.Quo(decOne, decThree)
		z.Sub(z, z)
		z.Neg(z)
	}
}

func valKey(h interface{ Write([]byte) (int, error) }, v oracle.Val) {
	var b [10]byte
	b[0] = byte(v.Form)
	if v.Neg {
		b[1] = 1
	}
	for i := 0; i < 8; i++ {
		b[2+i] = byte(uint64(v.Exp) >> (8 * i))
	}
	h.Write(b[:])
	if v.Form == oracle.Finite {
		h.Write(v.Coef.Bytes())
	}
}

func (k *opCase) key() uint64 {
	h := fnv.New64a()
	h.Write([]byte(k.op))
	var b [9]byte
	for i := 0; i < 8; i++ {
		b[i] = byte(uint64(k.p) >> (8 * i))
	}
	b[8] = byte(k.mode)
	h.Write(b[:])
	valKey(h, k.x)
	switch k.op {
	case "Add", "Sub", "Mul", "Quo":
		valKey(h, k.y)
	case "FMA":
		valKey(h, k.y)
		valKey(h, k.u)
	}
	return h.Sum64()
}

func (k *opCase) arity() int {
	switch k.op {
	case "Add", "Sub", "Mul", "Quo":
		return 2
	case "FMA":
		return 3
	}
	return 1
}

func (k *opCase) desc(full bool) string {
	f := func(v oracle.Val) string {
		if full {
			return v.Full()
		}
		return v.String()
	}
	s := fmt.Sprintf("%s prec=%d mode=%s x=%s", k.op, k.p, oracle.ModeNames[k.mode], f(k.x))
	if k.arity() >= 2 {
		if k.sameXY {
			s += " y=<same variable as x>"
		} else {
			s += " y=" + f(k.y)
		}
	}
	if k.arity() == 3 {
		s += " u=" + f(k.u)
	}
	return s + " [" + k.class + "]"
}

// outcome is the oracle's description of what the operation must do.
func (k *opCase) outcome() oracle.Outcome {
	switch k.op {
	case "Add":
		return oracle.Add(k.x, k.y, k.mode)
	case "Sub":
		return oracle.Sub(k.x, k.y, k.mode)
	case "Mul":
		return oracle.Mul(k.x, k.y)
	case "Quo":
		return oracle.Quo(k.x, k.y)
	case "FMA":
		return oracle.FMA(k.x, k.y, k.u, k.mode)
	case "Sqrt":
		return oracle.Sqrt(k.x)
	}
	return oracle.Ident(k.x) // Set, SetPrec, Neg, Abs (sign handled by the caller)
}

// attrs randomises operand attributes.
func (k *opCase) attrs(r *hx.RNG) {
	extra := func() uint {
		if r.Chance(50) {
			return 0
		}
		return uint(r.Range(1, 40))
	}
	k.xp, k.yp, k.up = extra(), extra(), extra()
	k.xm, k.ym, k.um = r.Mode(), r.Mode(), r.Mode()
	// A precision only bounds the mantissa: operands may carry precisions at the top of the uint32 field
	// (MaxPrec, within a word of it, around 2^31) at no cost. Nothing about the result depends on them.
	huge := func(v oracle.Val, cur uint) uint {
		if !r.Chance(4) {
			return cur
		}
		return hugePrec(r) // (an absolute precision: see opPrec)
	}
	k.xp, k.yp, k.up = huge(k.x, k.xp), huge(k.y, k.yp), huge(k.u, k.up)
	switch k.op { // the receiver too, where the work does not grow with the precision: the result is then exact
	case "Add", "Sub", "Mul", "FMA", "Set", "Neg", "Abs":
		if k.hugeOK && r.Chance(2) {
			k.p = int64(hugePrec(r))
		}
	}
	if r.Chance(60) {
		k.dirty = r.Range(1, 4)
	}
	k.opSeed = int64(r.U64() >> 1)
	k.x, k.y, k.u = inRange(k.x), inRange(k.y), inRange(k.u)
}

// opPrec is the precision an operand is built with: its digit count plus the extra drawn by attrs, or, when
// attrs drew a precision from the top of the range, that precision itself.
func opPrec(v oracle.Val, extra uint) uint {
	if extra >= 1<<30 {
		return extra
	}
	return digitsOf(v) + extra
}

// xPrec is the precision for an operand that is only read: its digits plus extra, or, 4 times in 100, a precision
// from the top of the range (a precision only bounds the mantissa; nothing is allocated for it).
func xPrec(r *hx.RNG, v oracle.Val, extra uint) uint {
	if v.Form == oracle.Finite && r.Chance(4) {
		return hugePrec(r)
	}
	return digitsOf(v) + extra
}

func hugePrec(r *hx.RNG) uint {
	return []uint{decimal.MaxPrec, decimal.MaxPrec - 1, decimal.MaxPrec - 17, decimal.MaxPrec - 18, 1 << 31, 1<<31 + 2, 1<<31 - 1, decimal.MaxPrec - uint(r.Range(0, 60))}[r.Intn(8)]
}

// inRange moves a finite operand back into the representable exponent range
// (generators that add digits to a coefficient may have pushed it out).
func inRange(v oracle.Val) oracle.Val {
	if v.Form != oracle.Finite {
		return v
	}
	le := v.LeadExp()
	if le > oracle.MaxExp {
		v.Exp -= le - oracle.MaxExp
	}
	if le < oracle.MinExp {
		v.Exp += oracle.MinExp - le
	}
	return v
}

func digitsOf(v oracle.Val) uint {
	if v.Form != oracle.Finite {
		return 1
	}
	return uint(oracle.Digits(v.Coef))
}

// exec runs the operation on a fresh receiver with distinct operand variables.
func (k *opCase) exec() (hx.State, *hx.PanicInfo) {
	var or *hx.RNG
	if k.opSeed != 0 {
		or = hx.NewRNG(k.opSeed, "operands", 0)
	}
	X := hx.MkR(or, k.x, opPrec(k.x, k.xp), k.xm)
	var Y, U *decimal.Decimal
	if k.arity() >= 2 {
		if k.sameXY {
			Y = X
		} else {
			Y = hx.MkR(or, k.y, opPrec(k.y, k.yp), k.ym)
		}
	}
	if k.arity() == 3 {
		U = hx.MkR(or, k.u, opPrec(k.u, k.up), k.um)
	}
	z := new(decimal.Decimal).SetPrec(uint(k.p)).SetMode(decimal.RoundingMode(k.mode))
	soil(z, k.dirty)
	pi := hx.Try(func() {
		switch k.op {
		case "Add":
			z.Add(X, Y)
		case "Sub":
			z.Sub(X, Y)
		case "Mul":
			z.Mul(X, Y)
		case "Quo":
			z.Quo(X, Y)
		case "FMA":
			z.FMA(X, Y, U)
		case "Sqrt":
			z.Sqrt(X)
		case "Set":
			z.Set(X)
		case "Neg":
			z.Neg(X)
		case "Abs":
			z.Abs(X)
		case "SetPrec":
			// the receiver holds x (at a precision that holds it exactly) and is then re-rounded
			z = hx.Mk(k.x, opPrec(k.x, k.xp), k.mode)
			z.SetPrec(uint(k.p))
		default:
			panic("arith: unknown op " + k.op)
		}
	})
	return hx.Snapshot(z), pi
}

// verdict of both models on the stored value (and, separately, on the accuracy).
type verdict struct {
	o        oracle.Outcome
	exp      oracle.Result // model #1
	m1Value  bool          // stored value == model #1 value
	m2Value  string        // model #2 message about the value
	m2Acc    string        // model #2 message about the accuracy
	m1AccOK  bool
	trivial  bool
	expectOK bool
}

func (k *opCase) judge(got hx.State) verdict {
	var v verdict
	v.o = k.outcome()
	v.exp = v.o.Expect(k.p, k.mode)
	gotV := got.V
	switch k.op { // Neg and Abs round x with x's sign and then change the sign
	case "Neg":
		gotV = gotV.Negate()
	case "Abs":
		if k.x.Neg {
			if !gotV.Neg {
				gotV = gotV.Negate()
			} else {
				// Abs left a negative value: make the comparison fail
				gotV = oracle.Val{Form: oracle.Inf, Neg: !k.x.Neg}
			}
		}
	}
	v.m1Value = oracle.Equal(v.exp.V, gotV)
	v.m2Value, v.m2Acc = v.o.Check(gotV, got.Acc, k.p, k.mode)
	v.m1AccOK = got.Acc == v.exp.Acc
	v.trivial = v.exp.Acc == 0
	return v
}

// ------------------------------------------------------------ generators

func clampLE(le int64, digitsBelow int64) int64 {
	if le > oracle.MaxExp {
		le = oracle.MaxExp
	}
	if le-digitsBelow < oracle.MinExp {
		le = oracle.MinExp + digitsBelow
	}
	return le
}

func pickPrec(r *hx.RNG, hint int, l hx.Limits, allowMax bool) int64 {
	if allowMax && r.Intn(100) == 0 {
		return maxPrec
	}
	return r.Prec(hint, l)
}

func genAddSub(r *hx.RNG, l hx.Limits) *opCase {
	k := &opCase{op: "Add", mode: r.Mode()}
	if r.Bool() {
		k.op = "Sub"
	}
	shape := r.Intn(100)
	switch {
	case shape < 28: // exponent gaps
		n1, n2 := r.Len(l), r.Len(l)
		k.p = pickPrec(r, n1, l, true)
		pp := int(k.p)
		if k.p == maxPrec {
			pp = n1
		}
		gaps := []int{0, 1, 18, 19, 20, pp - 1, pp, pp + 1, pp + 2, r.Range(0, 45), r.Range(0, 400), r.Range(0, l.MaxGap)}
		gap := gaps[r.Intn(len(gaps))]
		if gap < 0 {
			gap = 0
		}
		if r.Chance(3) {
			gap = l.MaxGap
		}
		le := r.LeadExp()
		le = clampLE(le, int64(gap)+1)
		x := r.Finite(n1, le)
		y := r.Finite(n2, le-int64(gap))
		if r.Bool() {
			x, y = y, x
		}
		k.x, k.y, k.class = x, y, "gap"
		if gap > pp+2 {
			k.class = "gap-sticky"
		}
	case shape < 50: // the exact sum is a rounding-aimed digit string
		p := int(r.Prec(0, l))
		if p > 400 {
			p = 400
		}
		k.p = int64(p)
		T := hx.CoefOf(r.RoundAimed(p))
		dT := int(oracle.Digits(T))
		n2 := r.Range(1, dT)
		yc := hx.CoefOf(r.Digits(n2))
		sh := 0
		if dT-n2 > 0 {
			sh = r.Intn(dT - n2 + 1)
		}
		yc.Mul(yc, oracle.Pow10(int64(sh)))
		var xc *big.Int
		s := r.Bool()
		yneg := s
		if yc.Cmp(T) < 0 && r.Bool() {
			xc = new(big.Int).Sub(T, yc) // same signs
		} else {
			xc = new(big.Int).Add(T, yc) // opposite signs
			yneg = !s
		}
		le := clampLE(r.LeadExp(), int64(dT)+2)
		e := le - int64(dT)
		k.x = oracle.Val{Form: oracle.Finite, Neg: s, Coef: xc, Exp: e}
		k.y = oracle.Val{Form: oracle.Finite, Neg: yneg, Coef: yc, Exp: e}
		if k.op == "Sub" {
			k.y.Neg = !k.y.Neg
		}
		k.class = "sum-aimed"
	case shape < 64: // massive cancellation
		n1 := r.Len(l)
		k.p = pickPrec(r, 0, l, false)
		le := clampLE(r.LeadExp(), int64(n1)+2)
		if r.Chance(15) { // at the bottom of the range: what survives the cancellation may underflow
			le = oracle.MinExp + int64(r.Range(0, n1+1))
			k.class = "cancel-underflow"
		}
		x := r.Finite(n1, le)
		dl := r.Range(1, n1)
		delta := hx.CoefOf(r.Digits(dl))
		yc := new(big.Int).Add(x.Coef, delta)
		if r.Bool() && x.Coef.Cmp(delta) > 0 {
			yc = new(big.Int).Sub(x.Coef, delta)
		}
		y := oracle.Val{Form: oracle.Finite, Neg: !x.Neg, Coef: yc, Exp: x.Exp}
		if k.op == "Sub" {
			y.Neg = x.Neg
		}
		if r.Bool() {
			x, y = y, x
		}
		k.x, k.y = x, y
		if k.class == "" {
			k.class = "cancel"
		}
	case shape < 71: // equal or negated operands
		n1 := r.Len(l)
		k.p = pickPrec(r, n1, l, true)
		x := r.Finite(n1, clampLE(r.LeadExp(), int64(n1)+2))
		y := x
		if r.Bool() {
			y = y.Negate()
		}
		k.x, k.y, k.class = x, y, "equal"
	case shape < 82: // both operands at the same end of the exponent range
		n1, n2 := r.Range(1, 60), r.Range(1, 60)
		k.p = int64(r.Range(1, 60))
		var le int64
		if r.Bool() {
			le = oracle.MaxExp - int64(r.Intn(3))
		} else {
			le = oracle.MinExp + int64(r.Intn(80))
		}
		x := r.Finite(n1, clampLE(le, 0))
		y := r.Finite(n2, clampLE(le-int64(r.Intn(4)), 0))
		if r.Chance(40) { // all nines at the top: carry into overflow
			x.Coef = new(big.Int).Sub(oracle.Pow10(int64(n1)), big.NewInt(1))
		}
		k.x, k.y, k.class = x, y, "range-end"
	case shape < 88: // a zero operand
		n1 := r.Len(l)
		k.p = pickPrec(r, n1, l, false)
		x := oracle.Val{Form: oracle.Zero, Neg: r.Bool()}
		y := r.Finite(n1, clampLE(r.LeadExp(), int64(n1)+2))
		if r.Chance(60) {
			y.Coef = hx.CoefOf(r.RoundAimed(int(minI64(k.p, 300))))
			y.Exp = clampLE(r.LeadExp(), 400) - oracle.Digits(y.Coef)
		}
		if r.Bool() {
			x, y = y, x
		}
		k.x, k.y, k.class = x, y, "zero-operand"
	default:
		n1, n2 := r.Len(l), r.Len(l)
		k.p = pickPrec(r, n1, l, false)
		le := clampLE(r.LeadExp(), 200)
		k.x = r.Finite(n1, le)
		k.y = r.Finite(n2, clampLE(le+int64(r.Range(-60, 60)), 200))
		k.class = "random"
	}
	k.hugeOK = true
	k.attrs(r)
	return k
}

// releaseHuge returns the memory of a directed multi-gigabyte case to the system before the next case runs (several of
// them may follow one another in a thorough run, and each child process has an address-space limit).
func releaseHuge() {
	runtime.GC()
	debug.FreeOSMemory()
}

func minI64(a, b int64) int64 {
	if a < b {
		return a
	}
	return b
}

func genMul(r *hx.RNG, l hx.Limits) *opCase {
	k := &opCase{op: "Mul", mode: r.Mode()}
	shape := r.Intn(100)
	switch {
	case shape < 20: // product is a rounding-aimed string times a trivial factor
		p := int(minI64(r.Prec(0, l), 400))
		k.p = int64(p)
		T := hx.CoefOf(r.RoundAimed(p))
		f := []int64{1, 2, 4, 5, 8, 10, 25, 125, 1000}[r.Intn(9)]
		// x = T/gcd-ish: use x = T, y = 10^j, or split off a factor when it divides
		x := T
		y := big.NewInt(1)
		if new(big.Int).Mod(T, big.NewInt(f)).Sign() == 0 {
			x = new(big.Int).Quo(T, big.NewInt(f))
			y = big.NewInt(f)
		}
		le := clampLE(r.LeadExp(), 500)
		k.x = oracle.Val{Form: oracle.Finite, Neg: r.Bool(), Coef: x, Exp: le - oracle.Digits(x)}
		k.y = oracle.Val{Form: oracle.Finite, Neg: r.Bool(), Coef: y, Exp: int64(r.Range(-30, 30))}
		k.class = "product-aimed"
	case shape < 32: // squares through the same variable
		n1 := r.Len(l)
		k.p = pickPrec(r, 2*n1, l, true)
		k.x = r.Finite(n1, int64(r.Range(-40, 40)))
		k.y = k.x
		k.sameXY = true
		k.class = "square"
	case shape < 50: // products landing at the ends of the exponent range
		n1, n2 := r.Range(1, 80), r.Range(1, 80)
		if r.Chance(20) { // long operands too (the long-multiplication routines have range shortcuts of their own to get wrong)
			n1, n2 = r.Range(500, 1400), r.Range(500, 1400)
		}
		k.p = int64(r.Range(1, 100))
		var target int64
		if r.Bool() {
			target = oracle.MaxExp + int64(r.Range(-3, 3))
		} else {
			target = oracle.MinExp + int64(r.Range(-3, 3))
		}
		le1 := int64(r.Range(-1000000000, 1000000000))
		le2 := target - le1
		k.x = r.Finite(n1, le1)
		k.y = r.Finite(n2, clampLE(le2, 0))
		if r.Chance(30) {
			k.x.Coef = new(big.Int).Sub(oracle.Pow10(int64(n1)), big.NewInt(1))
			k.y.Coef = new(big.Int).Sub(oracle.Pow10(int64(n2)), big.NewInt(1))
		}
		k.class = "range-end"
	case shape < 62: // the product lies right next to a rounding-aimed value T: x*y = T x 10^s -+ (less than x), with long
		// operands (y, or x = y, comes from a division, a square root): which side of T - a boundary, a tie - the product is
		// on is decided by the lowest words of both operands
		pp := int(minI64(r.Prec(0, l), 300))
		if r.Chance(15) {
			pp = r.Range(300, 1500) // precisions at which long multiplication and squaring change algorithm
		}
		k.p = int64(pp)
		T := hx.CoefOf(r.RoundAimed(pp))
		dT := int(oracle.Digits(T))
		n1 := r.Range(20, 400)
		if r.Chance(25) {
			n1 = r.Range(400, 1500)
		}
		if pp > 300 {
			n1 = r.Range(pp+40, 2*pp+400)
		}
		if r.Chance(30) {
			sh := 2*n1 - dT
			if sh < 0 {
				sh = 0
			}
			xc := new(big.Int).Sqrt(new(big.Int).Mul(T, oracle.Pow10(int64(sh))))
			if r.Bool() {
				xc.Add(xc, big.NewInt(1))
			}
			k.x = oracle.Val{Form: oracle.Finite, Neg: r.Bool(), Coef: xc, Exp: int64(r.Range(-60, 60)) - oracle.Digits(xc)}
			k.y = k.x
			k.sameXY = true
			k.class = "square-next-to-aimed"
		} else {
			xc := hx.CoefOf(r.Digits(n1))
			n2 := r.Range(20, n1+20)
			sh := n1 + n2 - dT
			if sh < 0 {
				sh = 0
			}
			yc := new(big.Int).Quo(new(big.Int).Mul(T, oracle.Pow10(int64(sh))), xc)
			if r.Bool() || yc.Sign() == 0 {
				yc.Add(yc, big.NewInt(1))
			}
			k.x = oracle.Val{Form: oracle.Finite, Neg: r.Bool(), Coef: xc, Exp: int64(r.Range(-60, 60)) - oracle.Digits(xc)}
			k.y = oracle.Val{Form: oracle.Finite, Neg: r.Bool(), Coef: yc, Exp: int64(r.Range(-60, 60)) - oracle.Digits(yc)}
			if r.Bool() {
				k.x, k.y = k.y, k.x
			}
			k.class = "product-next-to-aimed"
		}
	default:
		n1, n2 := r.Len(l), r.Len(l)
		k.p = pickPrec(r, n1+n2, l, true)
		k.x = r.Finite(n1, int64(r.Range(-60, 60)))
		k.y = r.Finite(n2, int64(r.Range(-60, 60)))
		k.class = "random"
	}
	k.hugeOK = true
	k.attrs(r)
	return k
}

func genQuo(r *hx.RNG, l hx.Limits) *opCase {
	k := &opCase{op: "Quo", mode: r.Mode()}
	shape := r.Intn(100)
	switch {
	case shape < 40: // exact quotients u = q*v, q rounding-aimed or short
		var q *big.Int
		p := int(minI64(r.Prec(0, l), 300))
		if r.Bool() {
			q = hx.CoefOf(r.RoundAimed(p))
		} else {
			q = hx.CoefOf(r.Digits(r.Range(1, 60)))
			p = int(oracle.Digits(q)) + r.Range(-2, 20)
			if p < 1 {
				p = 1
			}
		}
		k.p = int64(p)
		n2 := r.Len(l)
		if n2 > 1200 {
			n2 = 1200
		}
		v := hx.CoefOf(r.Digits(n2))
		u := new(big.Int).Mul(q, v)
		k.x = oracle.Val{Form: oracle.Finite, Neg: r.Bool(), Coef: u, Exp: int64(r.Range(-40, 40))}
		k.y = oracle.Val{Form: oracle.Finite, Neg: r.Bool(), Coef: v, Exp: int64(r.Range(-40, 40))}
		k.class = "exact-quotient"
	case shape < 55: // quotients at the ends of the exponent range
		n1, n2 := r.Range(1, 60), r.Range(1, 60)
		k.p = int64(r.Range(1, 60))
		var target int64
		if r.Bool() {
			target = oracle.MaxExp + int64(r.Range(-3, 3))
		} else {
			target = oracle.MinExp + int64(r.Range(-3, 3))
		}
		le2 := int64(r.Range(-1000000000, 1000000000))
		k.y = r.Finite(n2, le2)
		k.x = r.Finite(n1, clampLE(target+le2, 0))
		k.class = "range-end"
	case shape < 62: // divisors that invite a shortcut (powers of ten, 1, 2, 5, ...), dividends aimed at the rounding position
		p := int(minI64(r.Prec(0, l), 300))
		k.p = int64(p)
		xc := hx.CoefOf(r.RoundAimed(p))
		yc := big.NewInt([]int64{1, 1, 1, 1, 2, 4, 5, 8, 25, 3}[r.Intn(10)])
		yc.Mul(yc, oracle.Pow10(int64(r.Intn(3)*r.Range(0, 60)))) // (trailing zero digits and whole zero words in the mantissa)
		yle := int64(r.Range(-40, 40))
		if r.Chance(30) {
			yle = int64(r.Range(-1000000000, 1000000000))
		}
		var xle int64
		switch r.Intn(4) {
		case 0: // the dividend itself at the top / bottom of the range
			xle = []int64{oracle.MaxExp, oracle.MinExp}[r.Intn(2)]
		case 1: // the quotient at an end of the range
			xle = []int64{oracle.MaxExp, oracle.MinExp}[r.Intn(2)] + int64(r.Range(-3, 3)) + yle
		default:
			xle = yle + int64(r.Range(-60, 60))
		}
		xle = clampLE(xle, 0)
		k.x = oracle.Val{Form: oracle.Finite, Neg: r.Bool(), Coef: xc, Exp: xle - oracle.Digits(xc)}
		k.y = oracle.Val{Form: oracle.Finite, Neg: r.Bool(), Coef: yc, Exp: clampLE(yle, 0) - oracle.Digits(yc)}
		k.class = "simple-divisor"
	case shape < 75: // near-equal leading words: quotient-digit correction
		n2 := r.Range(20, 200)
		v := hx.CoefOf(r.Digits(n2))
		n1 := n2 + r.Range(0, 120)
		ud := r.Digits(n1)
		vs := v.String()
		// copy a prefix of v into u so that leading words coincide
		pre := r.Range(1, n2)
		copy(ud, vs[:pre])
		k.x = oracle.Val{Form: oracle.Finite, Neg: r.Bool(), Coef: hx.CoefOf(ud), Exp: int64(r.Range(-40, 40))}
		k.y = oracle.Val{Form: oracle.Finite, Neg: r.Bool(), Coef: v, Exp: int64(r.Range(-40, 40))}
		k.p = pickPrec(r, 0, l, false)
		k.class = "near-equal-lead"
	default:
		n1, n2 := r.Len(l), r.Len(l)
		k.p = pickPrec(r, 0, l, false)
		k.x = r.Finite(n1, int64(r.Range(-60, 60)))
		k.y = r.Finite(n2, int64(r.Range(-60, 60)))
		k.class = "random"
	}
	k.hugeOK = true
	k.attrs(r)
	return k
}

func genUnary(r *hx.RNG, l hx.Limits, op string) *opCase {
	k := &opCase{op: op, mode: r.Mode()}
	p := int(minI64(r.Prec(0, l), 600))
	k.p = int64(p)
	var c *big.Int
	if r.Chance(75) {
		c = hx.CoefOf(r.RoundAimed(p))
		k.class = "round-aimed"
	} else {
		c = hx.CoefOf(r.Digits(r.Len(l)))
		k.class = "random"
	}
	d := oracle.Digits(c)
	le := r.LeadExp()
	if r.Chance(10) {
		le = oracle.MaxExp
		k.class += "-top"
	}
	le = clampLE(le, 0)
	k.x = oracle.Val{Form: oracle.Finite, Neg: r.Bool(), Coef: c, Exp: le - d}
	k.hugeOK = true
	k.attrs(r)
	return k
}

// ------------------------------------------------------------------- FMA

// genFMA builds x, y, u for a fused multiply-add.
func genFMA(r *hx.RNG, l hx.Limits) *opCase {
	k := &opCase{op: "FMA", mode: r.Mode()}
	n1, n2 := r.Len(l), r.Len(l)
	if n1 > 3000 {
		n1 = 3000
	}
	if n2 > 3000 {
		n2 = 3000
	}
	x := r.Finite(n1, int64(r.Range(-40, 40)))
	y := r.Finite(n2, int64(r.Range(-40, 40)))
	tieP := 0
	if r.Chance(5) {
		// both factors far longer than the receiver needs, each an exact tie at a word boundary a little beyond the
		// receiver's words (kept words, then B/2, then zero words kept in the mantissa): a product computed from rounded
		// factors with an error bound has both rounding errors at their maximum; the addend then aims the sum (below)
		tieP = r.Range(1, 60)
		mk := func() oracle.Val {
			kw := (tieP+18)/19 + r.Range(1, 3)
			ds := r.Digits(19 * kw)
			if r.Chance(70) {
				ds[len(ds)-1] = "02468"[r.Intn(5)]
			}
			ds = append(ds, '5')
			ds = append(ds, bytes.Repeat([]byte{'0'}, 18+19*r.Range(kw, kw+4))...)
			return oracle.Val{Form: oracle.Finite, Neg: r.Bool(), Coef: hx.CoefOf(ds), Exp: int64(r.Range(-40, 40)) - int64(len(ds))}
		}
		x, y = mk(), mk()
	}
	prod := new(big.Int).Mul(x.Coef, y.Coef)
	pe := x.Exp + y.Exp
	dp := int(oracle.Digits(prod))
	ple := int64(dp) + pe // lead exponent of the product
	pneg := x.Neg != y.Neg
	k.p = pickPrec(r, dp, l, false)
	shape := r.Intn(100)
	if tieP > 0 {
		k.p, shape = int64(tieP), 75 // (the sum-aimed shape)
	}
	p := int(minI64(k.p, 5000))
	switch {
	case shape < 30: // u within +-(p+3) digits of the product's leading digit
		n3 := r.Len(l)
		off := int64(r.Range(-(p + 3), p+3))
		k.u = r.Finite(n3, ple+off)
		k.class = "u-near"
		if r.Chance(20) {
			// a power of ten (or one digit) of the opposite sign: the subtraction borrows out of the leading digit, the sum
			// drops a decade and every digit position moves up by one
			k.u = oracle.Val{Form: oracle.Finite, Neg: !pneg, Coef: big.NewInt(int64([]int{1, 1, 1, r.Range(1, 9)}[r.Intn(4)])), Exp: ple + int64(r.Range(p-2, p+3))}
			if r.Chance(15) {
				k.u.Neg = pneg
			}
			k.class = "u-power-of-ten-above"
		}
	case shape < 42: // u far below / far above: only a sticky contribution
		n3 := r.Range(1, 60)
		gap := int64(r.Range(p+2, p+2+minInt(l.MaxGap, 3000)))
		if r.Bool() {
			k.u = r.Finite(n3, ple-gap-int64(dp))
			k.class = "u-far-below"
		} else {
			k.u = r.Finite(n3, ple+gap+int64(n3))
			k.class = "u-far-above"
		}
	case shape < 70: // u = -(x*y rounded to kk digits): cancellation leaving 0 .. all digits
		kk := r.Range(1, dp)
		if r.Chance(25) {
			kk = dp // exact cancellation: zero sum
		}
		uc, ue, _ := oracle.ExDec{Coef: prod, Exp: pe}.Trunc(int64(kk))
		if r.Chance(30) && kk < dp {
			uc = new(big.Int).Add(uc, big.NewInt(1))
		}
		k.u = oracle.Val{Form: oracle.Finite, Neg: !pneg, Coef: uc, Exp: ue}.Strip()
		k.class = "cancel"
		if kk == dp {
			k.class = "cancel-to-zero"
		}
		if r.Chance(12) { // product and u at the bottom of the range (both representable): the sum may underflow
			shift := oracle.MinExp + int64(r.Range(1, dp+2)) - ple
			x.Exp += shift / 2
			y.Exp += shift - shift/2
			if k.u.Form == oracle.Finite {
				k.u.Exp += shift
				if k.u.LeadExp() < oracle.MinExp { // keep u itself representable
					k.u.Exp += oracle.MinExp - k.u.LeadExp()
				}
			}
			k.class += "-underflow"
		}
	case shape < 74: // u cancels the tail of a sparse product: what is left is short, and exact at a precision far below
		// the product's length although u lies dozens of digits below its leading digit
		x = oracle.Val{Form: oracle.Finite, Neg: r.Bool(), Coef: sparseCoef(r, r.Range(20, 80)), Exp: int64(r.Range(-40, 40))}
		y = oracle.Val{Form: oracle.Finite, Neg: r.Bool(), Coef: sparseCoef(r, r.Range(20, 80)), Exp: int64(r.Range(-40, 40))}
		prod = new(big.Int).Mul(x.Coef, y.Coef)
		pe, dp = x.Exp+y.Exp, int(oracle.Digits(prod))
		pneg = x.Neg != y.Neg
		t := int64(r.Range(1, dp-1))
		low := new(big.Int).Rem(prod, oracle.Pow10(t))
		if low.Sign() == 0 {
			low.SetInt64(int64(r.Range(1, 9)))
		}
		k.u = oracle.Val{Form: oracle.Finite, Neg: !pneg, Coef: low, Exp: pe}
		if r.Chance(30) { // ... or completes it to the next unit of that place
			k.u = oracle.Val{Form: oracle.Finite, Neg: pneg, Coef: new(big.Int).Sub(oracle.Pow10(t), low), Exp: pe}
		}
		rest := oracle.FMA(x, y, k.u, 0)
		k.p = int64(r.Range(1, 40))
		if d, ok := rest.Ex.(oracle.ExDec); ok && !rest.Special && !rest.NaN && d.Coef.Sign() != 0 {
			k.p = (oracle.Val{Form: oracle.Finite, Coef: d.Coef}).MinPrec() + int64(r.Range(-1, 2))
			if k.p < 1 {
				k.p = 1
			}
		}
		k.class = "tail-cancel"
	case shape < 80: // the sum lands on a rounding-aimed digit string: u = T - x*y
		if p > 300 {
			p = 300
			k.p = 300
		}
		T := hx.CoefOf(r.RoundAimed(p))
		dT := oracle.Digits(T)
		// align T with the product: T x 10^tE, tE chosen so that T's lead exponent is ple + small
		tE := ple + int64(r.Range(0, 2)) - dT
		e := tE
		if pe < e {
			e = pe
		}
		a := new(big.Int).Mul(T, oracle.Pow10(tE-e))
		b := new(big.Int).Mul(prod, oracle.Pow10(pe-e))
		// result sign s: s*T = pneg*prod + u  =>  u = s*T - pneg*prod
		if r.Bool() {
			a.Neg(a)
		}
		if pneg {
			b.Neg(b)
		}
		a.Sub(a, b)
		if a.Sign() == 0 {
			k.u = oracle.Val{Form: oracle.Zero}
		} else {
			k.u = oracle.Val{Form: oracle.Finite, Neg: a.Sign() < 0, Coef: a.Abs(a), Exp: e}.Strip()
		}
		k.class = "sum-aimed"
		if tieP > 0 {
			k.class = "sum-aimed-tie-shaped-long-factors"
		}
	case shape < 86: // zero product or zero u
		switch r.Intn(3) {
		case 0:
			x = oracle.Val{Form: oracle.Zero, Neg: r.Bool()}
			k.u = oracle.Val{Form: oracle.Zero, Neg: r.Bool()}
		case 1:
			y = oracle.Val{Form: oracle.Zero, Neg: r.Bool()}
			k.u = r.Finite(r.Len(l), int64(r.Range(-40, 40)))
		default:
			k.u = oracle.Val{Form: oracle.Zero, Neg: r.Bool()}
		}
		k.class = "zeros"
	case shape < 92: // infinities
		inf := func() oracle.Val { return oracle.Val{Form: oracle.Inf, Neg: r.Bool()} }
		switch r.Intn(4) {
		case 0:
			x = inf()
			k.u = r.Finite(5, 0)
		case 1:
			k.u = inf()
		case 2:
			y = inf()
			k.u = inf()
		default:
			x = inf()
			y = oracle.Val{Form: oracle.Zero, Neg: r.Bool()}
			k.u = r.Finite(5, 0)
		}
		k.class = "infinities"
	default: // products at the ends of the exponent range
		n1, n2 = r.Range(1, 40), r.Range(1, 40)
		var target int64
		if r.Bool() {
			target = oracle.MaxExp + int64(r.Range(-3, 3))
		} else {
			target = oracle.MinExp + int64(r.Range(-3, 3))
		}
		le1 := int64(r.Range(-1000000000, 1000000000))
		x = r.Finite(n1, le1)
		y = r.Finite(n2, clampLE(target-le1, 0))
		ule := clampLE(target+int64(r.Range(-3, 3)), 0)
		k.u = r.Finite(r.Range(1, 40), ule)
		k.p = int64(r.Range(1, 60))
		k.class = "range-end"
		if r.Chance(30) {
			// a zero addend of either sign: the sum is the product, which may leave the range (an inexact zero keeps the
			// product's sign, whatever the sign of the zero that was added)
			k.u = oracle.Val{Form: oracle.Zero, Neg: r.Bool()}
			k.class = "range-end-zero-addend"
			if r.Bool() { // far outside the range, not only next to its ends
				x = r.Finite(n1, int64(r.Range(-2147483000, -1000000000)))
				y = r.Finite(n2, int64(r.Range(-2147483000, -1000000000)))
				if r.Bool() {
					x.Exp, y.Exp = -x.Exp, -y.Exp
				}
			}
		}
	}
	k.x, k.y = x, y
	k.hugeOK = true
	k.attrs(r)
	return k
}

func minInt(a, b int) int {
	if a < b {
		return a
	}
	return b
}

// fmaProductOutOfRange is the predicate of known finding D15: the exact product
// x*y leaves the exponent range although it is only an intermediate value.
func fmaProductOutOfRange(k *opCase) bool {
	if k.op != "FMA" || k.x.Form != oracle.Finite || k.y.Form != oracle.Finite || k.u.Form == oracle.Zero {
		return false // (a zero addend is handled by Mul alone, which saturates correctly: not part of the finding)
	}
	le := oracle.Digits(new(big.Int).Mul(k.x.Coef, k.y.Coef)) + k.x.Exp + k.y.Exp
	return le < oracle.MinExp || le > oracle.MaxExp
}

// sparseCoef returns n digits that are mostly zeros with a few digits set (first one non-zero).
func sparseCoef(r *hx.RNG, n int) *big.Int {
	d := make([]byte, n)
	for i := range d {
		d[i] = '0'
	}
	d[0] = '1' + byte(r.Intn(9))
	for k := r.Range(0, 3); k > 0; k-- {
		d[r.Intn(n)] = '1' + byte(r.Intn(9))
	}
	if r.Bool() {
		d[n-1] = '1' + byte(r.Intn(9))
	}
	return hx.CoefOf(d)
}

// fmaKnownOutcome models the pinned tree's behaviour behind known finding D15: FMA forms the product within the
// receiver's exponent range, so a product beyond it has become an infinity or a zero before u is added. ok is false
// when the case is outside the finding's class; nan means the model ends in the ErrNaN "infinities with opposite signs".
func fmaKnownOutcome(k *opCase) (nan bool, want oracle.Result, ok bool) {
	if !fmaProductOutOfRange(k) {
		return false, oracle.Result{}, false
	}
	le := oracle.Digits(new(big.Int).Mul(k.x.Coef, k.y.Coef)) + k.x.Exp + k.y.Exp
	pneg := k.x.Neg != k.y.Neg
	if le > oracle.MaxExp { // the product saturated to an infinity: Inf + u
		if k.u.Form == oracle.Inf && k.u.Neg != pneg {
			return true, oracle.Result{}, true
		}
		return false, oracle.Result{V: oracle.Val{Form: oracle.Inf, Neg: pneg}}, true
	}
	// the product was flushed to a zero: the result is u, rounded to the receiver
	if k.u.Form != oracle.Finite {
		return false, oracle.Result{V: k.u}, true
	}
	return false, oracle.RoundOnce(oracle.ExDec{Neg: k.u.Neg, Coef: k.u.Coef, Exp: k.u.Exp}, k.p, k.mode), true
}

// fmaKnownFinding returns D15's predicate name when the case lies in the finding's class AND what was observed is what
// the finding describes (the saturating model above); any other outcome in that class is a violation of its own.
func fmaKnownFinding(k *opCase, got *hx.State, pi *hx.PanicInfo) string {
	nan, want, ok := fmaKnownOutcome(k)
	if !ok {
		return ""
	}
	const pred = "fma_product_exponent_out_of_range"
	if pi != nil {
		if nan && pi.IsNaN {
			return pred
		}
		return ""
	}
	if got == nil || nan {
		return ""
	}
	if got.V.Form == want.V.Form && got.V.Neg == want.V.Neg && got.Acc == want.Acc && (want.V.Form != oracle.Finite || oracle.Equal(got.V, want.V)) {
		return pred
	}
	return ""
}

// ------------------------------------------------- aliasing shapes (C03, C10)

// partitions4 lists the 15 set partitions of {z, x, y, u} as group ids per role.
var partitions4 = [][4]int{
	{0, 1, 2, 3},
	{0, 0, 1, 2}, {0, 1, 0, 2}, {0, 1, 2, 0}, {0, 1, 1, 2}, {0, 1, 2, 1}, {0, 1, 2, 2},
	{0, 0, 1, 1}, {0, 1, 0, 1}, {0, 1, 1, 0},
	{0, 0, 0, 1}, {0, 0, 1, 0}, {0, 1, 0, 0}, {0, 1, 1, 1},
	{0, 0, 0, 0},
}

// partitions3 lists the 5 set partitions of {z, x, y}.
var partitions3 = [][4]int{{0, 1, 2, 3}, {0, 0, 1, 3}, {0, 1, 0, 3}, {0, 1, 1, 3}, {0, 0, 0, 3}}

// partitions2 lists the 2 set partitions of {z, x}.
var partitions2 = [][4]int{{0, 1, 2, 3}, {0, 0, 2, 3}}

func shapeName(part [4]int, arity int) string {
	names := []string{"z", "x", "y", "u"}
	s := ""
	for g := 0; g < 4; g++ {
		var grp []string
		for role := 0; role <= arity; role++ {
			if part[role] == g {
				grp = append(grp, names[role])
			}
		}
		if len(grp) > 1 {
			if s != "" {
				s += ","
			}
			for i, n := range grp {
				if i > 0 {
					s += "="
				}
				s += n
			}
		}
	}
	if s == "" {
		return "distinct"
	}
	return s
}

// applyShape makes the operand values consistent with a sharing pattern: roles in
// one group get the value of the group's first operand role, and the receiver's
// precision is raised so that operands sharing the receiver fit in it.
func (k *opCase) applyShape(part [4]int) {
	vals := [4]*oracle.Val{nil, &k.x, &k.y, &k.u}
	ar := k.arity()
	for role := 1; role <= ar; role++ {
		for prev := 1; prev < role; prev++ {
			if part[prev] == part[role] {
				*vals[role] = *vals[prev]
				break
			}
		}
		if part[role] == part[0] {
			if d := int64(digitsOf(*vals[role])); d > k.p {
				k.p = d
			}
		}
	}
}

// execShape runs the operation with variables shared as part says. prep, if
// non-nil, prepares a receiver that is not shared with an operand (dirty receivers).
// It returns the receiver's state and, for each operand role not sharing the
// receiver, the operand's state before and after the call.
func (k *opCase) execShape(part [4]int, prep func() *decimal.Decimal) (got hx.State, pi *hx.PanicInfo, before, after [4]*hx.State) {
	vals := [4]oracle.Val{{}, k.x, k.y, k.u}
	xp := [4]uint{0, k.xp, k.yp, k.up}
	xm := [4]int{0, k.xm, k.ym, k.um}
	ar := k.arity()
	var or *hx.RNG
	if k.opSeed != 0 && !k.noSoil {
		or = hx.NewRNG(k.opSeed, "operands", 0)
	}
	vars := map[int]*decimal.Decimal{}
	for role := 1; role <= ar; role++ {
		g := part[role]
		if vars[g] != nil {
			continue
		}
		if g == part[0] {
			d := hx.MkR(or, vals[role], uint(k.p), k.mode)
			if int64(d.Prec()) != k.p {
				panic(hx.MkError{Msg: "operand sharing the receiver does not fit the receiver's precision"})
			}
			if k.spareCap > 0 && vals[role].Form == oracle.Finite {
				// like a value produced by earlier arithmetic: the mantissa sits in a buffer with spare capacity (stale words beyond len)
				raw := decimal.VerifGetRaw(d)
				buf := make([]decimal.Word, raw.Len+k.spareCap)
				copy(buf, raw.Mant[:raw.Len])
				for i := raw.Len; i < len(buf); i++ {
					buf[i] = decimal.Word(wb - 1)
				}
				raw.Mant = buf
				decimal.VerifSetRaw(d, raw)
			}
			vars[g] = d
		} else {
			vars[g] = hx.MkR(or, vals[role], opPrec(vals[role], xp[role]), xm[role])
		}
	}
	z := vars[part[0]]
	if z == nil {
		if prep != nil {
			z = prep()
		} else {
			z = new(decimal.Decimal).SetPrec(uint(k.p)).SetMode(decimal.RoundingMode(k.mode))
			if !k.noSoil {
				soil(z, k.dirty)
			}
		}
	}
	for role := 1; role <= ar; role++ {
		if part[role] != part[0] {
			s := hx.Snapshot(vars[part[role]])
			before[role] = &s
		}
	}
	X, Y, U := vars[part[1]], vars[part[2]], vars[part[3]]
	pi = hx.Try(func() {
		switch k.op {
		case "Add":
			z.Add(X, Y)
		case "Sub":
			z.Sub(X, Y)
		case "Mul":
			z.Mul(X, Y)
		case "Quo":
			z.Quo(X, Y)
		case "FMA":
			z.FMA(X, Y, U)
		case "Sqrt":
			z.Sqrt(X)
		case "Set":
			z.Set(X)
		case "Neg":
			z.Neg(X)
		case "Abs":
			z.Abs(X)
		default:
			panic("arith: execShape: unknown op " + k.op)
		}
	})
	for role := 1; role <= ar; role++ {
		if part[role] != part[0] {
			s := hx.Snapshot(vars[part[role]])
			after[role] = &s
		}
	}
	k.lastCanon = hx.Canonical(z)
	return hx.Snapshot(z), pi, before, after
}

// costly reports whether executing the case would make the library materialise
// an exponent gap beyond the tier's cap (a resource cliff, not a property
// violation): such cases are skipped and counted, never judged.
func (k *opCase) costly(l hx.Limits) bool {
	gap := func(a, b oracle.Val) bool {
		if a.Form != oracle.Finite || b.Form != oracle.Finite {
			return false
		}
		d := a.Exp - b.Exp
		if d < 0 {
			d = -d
		}
		return d > int64(l.MaxGap)+20000
	}
	switch k.op {
	case "Add", "Sub":
		return gap(k.x, k.y)
	case "FMA":
		if k.x.Form == oracle.Finite && k.y.Form == oracle.Finite {
			le := oracle.Digits(k.x.Coef) + oracle.Digits(k.y.Coef) + k.x.Exp + k.y.Exp
			if le < oracle.MinExp-2 || le > oracle.MaxExp+2 {
				return false // the library saturates the product (known finding D15): no shift
			}
			return gap(oracle.Val{Form: oracle.Finite, Coef: k.x.Coef, Exp: k.x.Exp + k.y.Exp}, k.u)
		}
	}
	return false
}
