package main

import (
	"fmt"
	"math/big"

	"verifharness/oracle"

	"verifharness/hx"
)

// C01 — Add, Sub, Mul, Quo, Set, SetPrec (Neg, Abs) leave the exact result rounded once.

func init() {
	engines["C01"] = &engine{
		N:     tierN(320000, 12000000),
		Setup: selfTest,
		Case:  c01Case,
	}
}

func genC01(r *hx.RNG, l hx.Limits) *opCase {
	switch k := r.Intn(100); {
	case k < 36:
		return genAddSub(r, l)
	case k < 56:
		return genMul(r, l)
	case k < 80:
		return genQuo(r, l)
	default:
		return genUnary(r, l, []string{"Set", "SetPrec", "Neg", "Abs"}[r.Intn(4)])
	}
}

// extremeGap builds an Add/Sub whose operands' leading digits lie 2^31 or more decimal places apart (the library
// materialises the gap: about 0.9 GB and a few seconds, hence one case per quick run). The exact sum cannot be written
// down; since the small operand lies far below both the last digit of the large one and the rounding position, the
// result is the same as for any non-zero value of its sign down there: the models judge that surrogate.
func extremeGap(r *hx.RNG, magnitudesAdd bool) (real, surrogate *opCase) {
	k := &opCase{op: "Add", mode: r.Mode(), class: "extreme-gap"}
	if r.Bool() {
		k.op = "Sub"
	}
	k.p = int64(r.Range(1, 60))
	gap := int64(1)<<31 + []int64{1, 5, 1000, int64(r.Range(1, 3000000))}[r.Intn(4)] // (beyond 2^31: at exactly 2^31 a wrapped int32 difference stays negative)
	xle := gap/2 + int64(r.Range(0, 1000))
	x := r.Finite(r.Range(1, 40), xle)
	y := r.Finite(r.Range(1, 20), xle-gap)
	if sameSign := magnitudesAdd != (k.op == "Sub"); sameSign { // the magnitudes add (uadd) or subtract (usub), as asked
		y.Neg = x.Neg
	} else {
		y.Neg = !x.Neg
	}
	tiny := oracle.Val{Form: oracle.Finite, Neg: y.Neg, Coef: big.NewInt(1), Exp: x.Exp - k.p - 5}
	s := *k
	if r.Bool() {
		k.x, k.y = x, y
		s.x, s.y = x, tiny
	} else {
		k.x, k.y = y, x
		s.x, s.y = tiny, x
	}
	k.xm, k.ym = r.Mode(), r.Mode()
	return k, &s
}

func c01Case(c *hx.Ctx, r *hx.RNG, idx int64) {
	l := hx.LimitsFor(c.Tier)
	k := genC01(r, l)
	judged := k
	if m := idx % 2000000; m == 5 || m == 21 { // (both in the same shard: one after the other)
		k, judged = extremeGap(r, m == 5)
	}
	if c.Verbose {
		fmt.Println("case:", k.desc(true))
	}
	if k.class != "extreme-gap" && k.costly(l) {
		c.Skip()
		return
	}
	got, pi := k.exec()
	cls := k.op + "/" + k.class
	if pi != nil {
		if pi.Class == "mk" || pi.Class == "cost" {
			panic(pi.Val)
		}
		c.Eval(k.key(), true, cls)
		c.Violate("panic", fmt.Sprintf("%s: %s panic %q at %s", k.desc(true), pi.Class, pi.Text, pi.Stack), "")
		return
	}
	v := judged.judge(got)
	c.Eval(k.key(), !v.trivial, cls)
	if c.Verbose {
		fmt.Printf("  stored  : %s\n  model #1: %s acc=%d\n  model #2: value=%q acc=%q\n", got, v.exp.V.Full(), v.exp.Acc, v.m2Value, v.m2Acc)
	}
	if c.WantSample(cls) {
		c.Sample(cls, fmt.Sprintf("%s -> %s", k.desc(false), got))
	}
	switch {
	case v.m1Value && v.m2Value == "":
		// held
	case !v.m1Value && v.m2Value != "":
		c.Violate("wrong-value", fmt.Sprintf("%s: stored %s, round-once model wants %s; definition check: %s", k.desc(true), got.V.Full(), v.exp.V.Full(), v.m2Value), "")
	default:
		c.Inconclusive(fmt.Sprintf("oracle self-check: models disagree on %s: stored %s, model #1 wants %s (equal=%v), model #2 says %q", k.desc(true), got.V.Full(), v.exp.V.Full(), v.m1Value, v.m2Value))
	}
}
