package main

import (
	"fmt"

	"verifharness/hx"
)

// C01 — Add, Sub, Mul, Quo, Set, SetPrec (Neg, Abs) leave the exact result rounded once.

func init() {
	engines["C01"] = &engine{
		N:     tierN(320000, 12000000),
		Setup: selfTest,
		Case:  c01Case,
	}
}

func genC01(r *hx.RNG, l hx.Limits) *opCase {
	switch k := r.Intn(100); {
	case k < 36:
		return genAddSub(r, l)
	case k < 56:
		return genMul(r, l)
	case k < 80:
		return genQuo(r, l)
	default:
		return genUnary(r, l, []string{"Set", "SetPrec", "Neg", "Abs"}[r.Intn(4)])
	}
}

func c01Case(c *hx.Ctx, r *hx.RNG, idx int64) {
	l := hx.LimitsFor(c.Tier)
	k := genC01(r, l)
	if c.Verbose {
		fmt.Println("case:", k.desc(true))
	}
	if k.costly(l) {
		c.Skip()
		return
	}
	got, pi := k.exec()
	cls := k.op + "/" + k.class
	if pi != nil {
		if pi.Class == "mk" || pi.Class == "cost" {
			panic(pi.Val)
		}
		c.Eval(k.key(), true, cls)
		c.Violate("panic", fmt.Sprintf("%s: %s panic %q at %s", k.desc(true), pi.Class, pi.Text, pi.Stack), "")
		return
	}
	v := k.judge(got)
	c.Eval(k.key(), !v.trivial, cls)
	if c.Verbose {
		fmt.Printf("  stored  : %s\n  model #1: %s acc=%d\n  model #2: value=%q acc=%q\n", got, v.exp.V.Full(), v.exp.Acc, v.m2Value, v.m2Acc)
	}
	if c.WantSample(cls) {
		c.Sample(cls, fmt.Sprintf("%s -> %s", k.desc(false), got))
	}
	switch {
	case v.m1Value && v.m2Value == "":
		// held
	case !v.m1Value && v.m2Value != "":
		c.Violate("wrong-value", fmt.Sprintf("%s: stored %s, round-once model wants %s; definition check: %s", k.desc(true), got.V.Full(), v.exp.V.Full(), v.m2Value), "")
	default:
		c.Inconclusive(fmt.Sprintf("oracle self-check: models disagree on %s: stored %s, model #1 wants %s (equal=%v), model #2 says %q", k.desc(true), got.V.Full(), v.exp.V.Full(), v.m1Value, v.m2Value))
	}
}
