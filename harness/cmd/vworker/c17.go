package main

import (
	"bytes"
	"encoding/binary"
	"encoding/gob"
	"fmt"
	"math/big"

	"github.com/db47h/decimal"

	"verifharness/hx"
	"verifharness/oracle"
)

// C17 — Gob round-trips every attribute; decoding any bytes is safe.

func init() {
	engines["C17"] = &engine{N: tierN(260000, 20000000), Setup: selfTest, Case: c17Case}
}

// genGobValue returns a library value with randomised attributes, including a
// non-Exact accuracy and mantissas shorter / as long as the precision allows.
func genGobValue(r *hx.RNG) *decimal.Decimal {
	switch r.Intn(12) {
	case 0:
		z := hx.MkR(r, oracle.Val{Form: oracle.Zero, Neg: r.Bool()}, uint(r.Range(0, 80)), r.Mode())
		return z
	case 1:
		return hx.MkR(r, oracle.Val{Form: oracle.Inf, Neg: r.Bool()}, uint(r.Range(0, 80)), r.Mode())
	}
	n := r.Range(1, 130)
	v := r.Finite(n, r.LeadExp())
	x := hx.Mk(v, uint(n)+uint(r.Intn(3)*r.Intn(60)), r.Mode())
	if r.Chance(45) && n > 1 { // rounding leaves a Below/Above accuracy and trailing zero words
		x.SetPrec(uint(r.Range(1, n-1)))
	}
	if r.Chance(15) {
		x.SetPrec(x.Prec() + uint(r.Range(1, 100))) // precision much larger than the mantissa
	}
	if r.Chance(6) {
		x.SetPrec(uint(0xFFFFFFFF) - uint(r.Range(0, 40))) // up to MaxPrec: a legitimate attribute (nothing is allocated by it)
	}
	return x
}

// c17Huge: a well-formed payload (valid header, every word below the base, normalized top word, non-zero lowest word)
// whose mantissa holds a little more than 2^32 digits - more than any precision field can announce. Whatever
// GobDecode answers, the receiver must not hold more digits than its precision. 1.8 GB of zero bytes (untouched pages) in, 1.8 GB of words decoded.
func c17Huge(c *hx.Ctx, r *hx.RNG) {
	n := (1<<32)/19 + 1 + r.Range(0, 3)
	wrapped := uint32(uint64(n) * 19)
	prec := wrapped + uint32(r.Range(0, 300))
	mode, acc := r.Intn(6), r.Intn(3)
	b := make([]byte, 10+8*n)
	b[0], b[1] = 1, byte(mode<<5|acc<<3|1<<1|r.Intn(2))
	binary.BigEndian.PutUint32(b[2:], prec)
	binary.BigEndian.PutUint32(b[6:], uint32(int32(r.Range(-50, 50))))
	binary.BigEndian.PutUint64(b[10:], wb/10+r.U64()%(wb-wb/10))
	binary.BigEndian.PutUint64(b[len(b)-8:], uint64(r.Range(1, 9)))
	what := fmt.Sprintf("GobDecode(header %x, then %d mantissa words: a normalized top word, zeros, a lowest word of %d: %d digits, precision field %d)", b[:10], n, b[len(b)-1], uint64(n)*19, prec)
	c.Note(what)
	z := new(decimal.Decimal) // (a receiver with a precision would round whatever was accepted)
	var err error
	pi := hx.Try(func() { err = z.GobDecode(b) })
	c.Eval(hx.HashStr(what), true, "hostile/more-than-2^32-digits")
	if pi != nil {
		c.Violate("panic", fmt.Sprintf("%s: %s panic %q at %s", what, pi.Class, pi.Text, pi.Stack), "")
		return
	}
	if err != nil {
		c.Count("hostile_rejected", 1)
	} else {
		c.Count("hostile_accepted", 1)
	}
	if !z.IsInf() && !z.IsZero() && uint64(z.MinPrec()) > uint64(z.Prec()) {
		c.Violate("malformed-value", fmt.Sprintf("%s (error=%v) left a value with Prec()=%d and MinPrec()=%d", what, err, z.Prec(), z.MinPrec()), "")
		return
	}
	if z.Prec() < 100000 {
		if msg := hx.Canonical(z); msg != "" {
			c.Violate("malformed-value", fmt.Sprintf("%s (error=%v): %s", what, err, msg), "")
		}
	}
}

func c17Case(c *hx.Ctx, r *hx.RNG, idx int64) {
	if idx%4000000 == 17 {
		c17Huge(c, r)
		releaseHuge()
		return
	}
	switch k := r.Intn(100); {
	case k < 25:
		c17RoundTrip(c, r)
	case k < 40:
		c17IntoReceiver(c, r)
	default:
		c17Hostile(c, r)
	}
}

func c17RoundTrip(c *hx.Ctx, r *hx.RNG) {
	x := genGobValue(r)
	pre := hx.Snapshot(x)
	what := "gob round trip of " + pre.String()
	c.Note(what)
	stream := r.Bool()
	var z decimal.Decimal
	pi := hx.Try(func() {
		if stream {
			var buf bytes.Buffer
			if err := gob.NewEncoder(&buf).Encode(x); err != nil {
				panic("gob encode: " + err.Error())
			}
			if err := gob.NewDecoder(&buf).Decode(&z); err != nil {
				panic("gob decode: " + err.Error())
			}
		} else {
			b, err := x.GobEncode()
			if err != nil {
				panic("GobEncode: " + err.Error())
			}
			if err := z.GobDecode(b); err != nil {
				panic("GobDecode rejects GobEncode's output: " + err.Error())
			}
			// both buffers belong to the caller: overwriting them must neither change the decoded value nor what the
			// next GobEncode returns
			enc, zr := string(b), hx.RawOf(&z)
			for i := range b[:cap(b)] {
				b[:cap(b)][i] = 0xFF
			}
			if !zr.Identical(hx.RawOf(&z)) {
				panic("the decoded value changed when the input buffer was overwritten afterwards")
			}
			if b2, _ := x.GobEncode(); string(b2) != enc {
				panic("GobEncode returned different bytes after its first result had been overwritten by its owner")
			}
		}
	})
	cls := "roundtrip/direct"
	if stream {
		cls = "roundtrip/encoding-gob"
	}
	c.Eval(hx.HashStr(what), pre.V.Form == oracle.Finite, cls)
	c.Classes[fmt.Sprintf("roundtrip-acc/%d", pre.Acc)]++
	if c.WantSample(cls) {
		c.Sample(cls, what)
	}
	if pi != nil {
		c.Violate("panic", fmt.Sprintf("%s: %s panic %q at %s", what, pi.Class, pi.Text, pi.Stack), "")
		return
	}
	if !hx.SameState(pre, hx.Snapshot(x)) {
		c.Violate("operand-modified", what+": encoding changed x", "")
		return
	}
	got := hx.Snapshot(&z)
	if !oracle.Equal(got.V, pre.V) || got.Prec != pre.Prec || got.Mode != pre.Mode || got.Acc != pre.Acc {
		c.Violate("round-trip-differs", fmt.Sprintf("%s: decoded %s", what, got), "")
		return
	}
	if msg := hx.Canonical(&z); msg != "" {
		c.Violate("not-canonical", what+": "+msg, "")
	}
}

func c17IntoReceiver(c *hx.Ctx, r *hx.RNG) {
	x := genGobValue(r)
	pre := hx.Snapshot(x)
	q := int64(r.Range(1, 140))
	mode := r.Mode()
	z := newRecv(q, mode)
	held := ""
	switch r.Intn(4) {
	case 0:
		z.SetInt64(31337)
		held = " holding 31337"
	case 1:
		if pre.V.Form == oracle.Finite {
			// the receiver holds a relative of what arrives: the same digits followed by more (whole words more, or a few
			// digits), the same value, or its leading digits only - a decoder that looks at what the receiver holds must
			// not mistake one for the other
			rel := oracle.Val{Form: oracle.Finite, Neg: pre.V.Neg != r.Chance(20), Coef: new(big.Int).Set(pre.V.Coef), Exp: pre.V.Exp}
			switch r.Intn(4) {
			case 0:
				k := int64(19*r.Range(1, 3)) + (19-oracle.Digits(rel.Coef)%19)%19 // (x's words, then whole words more)
				rel.Coef.Mul(rel.Coef, oracle.Pow10(k)).Add(rel.Coef, hx.CoefOf(r.Digits(19*r.Range(1, int(k/19)))))
				rel.Exp -= k
			case 1:
				k := int64(r.Range(1, 18))
				rel.Coef.Mul(rel.Coef, oracle.Pow10(k)).Add(rel.Coef, big.NewInt(int64(r.Range(1, 9))))
				rel.Exp -= k
			case 2:
				if d := oracle.Digits(rel.Coef); d > 19 {
					k := int64(r.Range(1, int(d)-1))
					rel.Coef.Quo(rel.Coef, oracle.Pow10(k))
					rel.Exp += k
				}
			}
			rel = inRange(rel)
			z = hx.Mk(rel, uint(maxI(int(q), int(oracle.Digits(rel.Coef)))), mode)
			if z.Prec() != uint(q) { // keep the longer mantissa: SetPrec upwards does not touch it
				q = int64(z.Prec())
			}
			held = " holding " + rel.String()
		}
	}
	what := fmt.Sprintf("GobDecode of %s into a receiver with prec=%d mode=%s%s", pre, q, oracle.ModeNames[mode], held)
	c.Note(what)
	pi := hx.Try(func() {
		b, _ := x.GobEncode()
		if err := z.GobDecode(b); err != nil {
			panic("GobDecode rejects GobEncode's output: " + err.Error())
		}
	})
	c.Eval(hx.HashStr(what), pre.V.Form == oracle.Finite, "into-receiver")
	if pi != nil {
		c.Violate("panic", fmt.Sprintf("%s: %s panic %q at %s", what, pi.Class, pi.Text, pi.Stack), "")
		return
	}
	got := hx.Snapshot(z)
	if int64(got.Prec) != q || got.Mode != mode {
		c.Violate("receiver-attributes-changed", fmt.Sprintf("%s: receiver now %s", what, got), "")
		return
	}
	if valueVerdict(c, what, oracle.Ident(pre.V), got, q, mode, "") {
		if msg := hx.Canonical(z); msg != "" {
			c.Violate("not-canonical", what+": "+msg, "")
		}
	}
}

// battery runs follow-up operations on a decoded value: a malformed value that
// slipped past the walker would panic or misbehave here.
func battery(z *decimal.Decimal) {
	_ = z.Text('g', -1)
	_ = z.Text('e', 5)
	_ = z.Text('p', 0)
	z.Cmp(z)
	z.MinPrec()
	z.IsInt()
	z.Int64()
	z.Sign()
	new(decimal.Decimal).Add(z, z)
	new(decimal.Decimal).SetPrec(20).Mul(z, z)
	if !z.IsInf() { // Inf - Inf is an invalid operation
		new(decimal.Decimal).SetPrec(20).Sub(z, z)
	}
	new(decimal.Decimal).SetPrec(7).Set(z)
	new(decimal.Decimal).Neg(z)
	b, err := z.GobEncode()
	if err != nil {
		panic("GobEncode of a decoded value: " + err.Error())
	}
	var y decimal.Decimal
	if err := y.GobDecode(b); err != nil {
		panic("re-decoding a decoded value fails: " + err.Error())
	}
	if y.Cmp(z) != 0 || y.Prec() != z.Prec() || y.Mode() != z.Mode() || y.Acc() != z.Acc() || y.Signbit() != z.Signbit() {
		panic("a decoded value does not survive its own round trip")
	}
}

func c17Hostile(c *hx.Ctx, r *hx.RNG) {
	var b []byte
	cls := ""
	x := genGobValue(r)
	enc, _ := x.GobEncode()
	switch k := r.Intn(100); {
	case k < 22: // truncation at every length
		b = append([]byte(nil), enc[:r.Intn(len(enc)+1)]...)
		cls = "truncated"
	case k < 42: // single bit flip
		b = append([]byte(nil), enc...)
		i := r.Intn(len(b))
		b[i] ^= 1 << uint(r.Intn(8))
		cls = "bit-flip"
		if i < 10 {
			cls = "bit-flip-header"
		}
	case k < 52: // random byte edits
		b = append([]byte(nil), enc...)
		for n := r.Range(1, 4); n > 0; n-- {
			b[r.Intn(len(b))] = byte(r.U64())
		}
		cls = "byte-edits"
	case k < 60: // extended
		b = append(append([]byte(nil), enc...), make([]byte, r.Range(1, 24))...)
		for i := len(enc); i < len(b); i++ {
			b[i] = byte(r.U64())
		}
		cls = "extended"
	case k < 92: // hand-built payloads: header fields forced out of range, hostile mantissa words
		mode := r.Intn(8)
		acc := r.Intn(4)
		form := r.Intn(4)
		if r.Chance(60) {
			mode, acc, form = r.Intn(6), r.Intn(3), 1
		}
		prec := uint32(r.Range(0, 80))
		switch r.Intn(8) {
		case 0:
			prec = 0
		case 1:
			prec = 0xFFFFFFFF
		case 2:
			prec = uint32(r.U64())
		}
		exp := int32(r.LeadExp())
		hdr := []byte{1, byte(mode<<5 | acc<<3 | form<<1 | r.Intn(2))}
		hdr = binary.BigEndian.AppendUint32(hdr, prec)
		hdr = binary.BigEndian.AppendUint32(hdr, uint32(exp))
		nw := r.Range(0, 6)
		words := make([]uint64, nw)
		for i := range words {
			words[i] = uint64(genWord(r))
		}
		shape := r.Intn(7)
		if nw > 0 {
			switch shape {
			case 0:
				words[r.Intn(nw)] = []uint64{wb, wb, wb + 1, 1<<64 - 1, wb + r.U64()%(1<<63)}[r.Intn(5)] // a word >= 10^19 (exactly the base included: its low 19 digits are zeros)
			case 1:
				words[0] = 0 // leading (most significant) zero word
			case 2:
				words[0] = uint64(r.Range(1, 999)) // unnormalised leading word
			case 3:
				words[0] = wb/10 + r.U64()%(wb-wb/10) // well-formed leading word
			case 4:
				words[r.Intn(nw)] = ^uint64(0)
			}
		}
		b = hdr
		for _, w := range words {
			b = binary.BigEndian.AppendUint64(b, w)
		}
		if r.Chance(15) && len(b) > 10 {
			b = b[:len(b)-r.Range(1, 7)] // partial word
		}
		cls = fmt.Sprintf("hand-built/shape%d", shape)
	default: // arbitrary bytes
		b = make([]byte, r.Range(0, 64))
		for i := range b {
			b[i] = byte(r.U64())
		}
		if len(b) > 0 && r.Bool() {
			b[0] = 1
		}
		cls = "random-bytes"
	}
	what := fmt.Sprintf("GobDecode(%x)", b)
	c.Note(what)
	if c.Verbose {
		fmt.Println("case:", what, cls)
	}
	// into a zero value, into a receiver with a precision, and through encoding/gob framing is left to the round trips
	z := new(decimal.Decimal)
	if r.Chance(35) {
		z = newRecv(int64(r.Range(1, 60)), r.Mode())
		z.SetInt64(-777)
	}
	var err error
	pi := hx.Try(func() { err = z.GobDecode(b) })
	c.Eval(hx.HashStr(what), true, "hostile/"+cls)
	if c.WantSample("hostile/" + cls) {
		c.Sample("hostile/"+cls, what)
	}
	if pi != nil {
		c.Violate("panic", fmt.Sprintf("%s: %s panic %q at %s", what, pi.Class, pi.Text, pi.Stack), "")
		return
	}
	if err != nil {
		c.Count("hostile_rejected", 1)
	} else {
		c.Count("hostile_accepted", 1)
	}
	if msg := hx.Canonical(z); msg != "" {
		c.Violate("malformed-value", fmt.Sprintf("%s (error=%v) left %s: %s", what, err, hx.RawOf(z), msg), "")
		return
	}
	if err == nil {
		if z.Prec() > 100000 {
			c.Count("battery_skipped_huge_precision", 1)
			return
		}
		if pi := hx.Try(func() { battery(z) }); pi != nil {
			c.Violate("accepted-value-misbehaves", fmt.Sprintf("%s accepted as %s, then: %s panic %q at %s", what, hx.RawOf(z), pi.Class, pi.Text, pi.Stack), "")
		}
	}
}
