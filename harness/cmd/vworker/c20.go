package main

import (
	"fmt"
	"math"
	"math/big"
	"strconv"

	"github.com/db47h/decimal"

	"verifharness/hx"
	"verifharness/oracle"
)

// C20 — SetBitsExp/BitsExp and MantExp/SetMantExp are exact inverses.

func init() {
	engines["C20"] = &engine{N: tierN(150000, 5000000), Setup: selfTest, Case: c20Case}
}

var extremeI64 = []int64{math.MaxInt64, math.MinInt64, math.MaxInt64 - 1, math.MinInt64 + 1, math.MaxInt64 - 800, math.MinInt64 + 800, math.MaxInt32, math.MinInt32, math.MaxInt32 + 1, math.MinInt32 - 1, 1 << 40, -(1 << 40)}

// c20Huge: a slice with more than 2^32 digits (226 050 913 words: 1.8 GB of address space, untouched zero pages until the
// library moves the words) on a precision-0 receiver. The precision becomes MaxPrec, 52 digits are cut off: the stored
// value must fit its precision and say that it is inexact. One case per run; the value is judged by its canonical form
// and accuracy only (the exact digits are a 1 followed by zeros and a final 7).
func c20Huge(c *hx.Ctx, r *hx.RNG, small bool) {
	n := (1<<32)/19 + 2
	mode := r.Mode()
	what := fmt.Sprintf("SetBitsExp(%d words: top 10^18, low word 7, zeros in between; exponent 0) on a precision-0 receiver, mode=%s", n, oracle.ModeNames[mode])
	c.Note(what)
	w := make([]decimal.Word, n)
	w[n-1], w[0] = decimal.Word(wb/10), 7
	if small {
		// a small explicit precision: the rounding digit sits more than 2^32 positions above the lowest one. The value is
		// 0.<top word>0...07: judged against the surrogate 0.<top three words><59 zeros>1 (same rounding, same accuracy). The
		// slice is handed over five times (SetBitsExp keeps it and rounds in place: its ends are rewritten before each
		// call), once per precision, under different modes.
		precs := []int64{10, 19, 25, 38, int64(r.Range(1, 50))}
		var sur *big.Int
		for i, p := range precs {
			mode = (mode + 1 + r.Intn(2)) % len(oracle.ModeNames)
			// the three top words: 57 random digits; every other time a to-nearest mode with a rounding digit of 5 or more
			ds := r.Digits(57)
			if i%2 == 0 {
				mode = []int{oracle.ToNearestEven, oracle.ToNearestAway}[r.Intn(2)]
				ds[p] = byte('5' + r.Intn(5))
			}
			if ds[0] == '0' {
				ds[0] = '3'
			}
			for j := 0; j < 4; j++ {
				w[j], w[n-1-j] = 0, 0
			}
			w[0] = 7
			for j := 0; j < 3; j++ {
				v, _ := strconv.ParseUint(string(ds[19*j:19*j+19]), 10, 64)
				w[n-1-j] = decimal.Word(v)
			}
			what = fmt.Sprintf("SetBitsExp(%d words: top three %s, low word 7, zeros in between; exponent 0) prec=%d mode=%s", n, ds, p, oracle.ModeNames[mode])
			c.Note(what)
			sur, _ = new(big.Int).SetString(string(ds), 10)
			z := newRecv(p, mode)
			pi := hx.Try(func() { z.SetBitsExp(w, 0) })
			c.Eval(hx.HashStr(what), true, "SetBitsExp/more-than-2^32-digits-small-precision")
			if pi != nil {
				c.Violate("panic", fmt.Sprintf("%s: %s panic %q at %s", what, pi.Class, pi.Text, pi.Stack), "")
				return
			}
			sur.Mul(sur, new(big.Int).Exp(big.NewInt(10), big.NewInt(60), nil))
			sur.Add(sur, big.NewInt(1))
			o := oracle.Outcome{Ex: oracle.ExDec{Coef: sur, Exp: -117}}
			got := hx.Snapshot(z)
			if !valueVerdict(c, what, o, got, p, mode, "") {
				return
			}
			if _, am := o.Check(got.V, got.Acc, p, mode); am != "" {
				c.Violate("wrong-acc", what+": "+am, "")
				return
			}
		}
		return
	}
	z := newRecv(0, mode)
	pi := hx.Try(func() { z.SetBitsExp(w, 0) })
	c.Eval(hx.HashStr(what), true, "SetBitsExp/more-than-2^32-digits")
	if pi != nil {
		c.Violate("panic", fmt.Sprintf("%s: %s panic %q at %s", what, pi.Class, pi.Text, pi.Stack), "")
		return
	}
	prec, minPrec, acc := z.Prec(), z.MinPrec(), int(z.Acc())
	if z.IsInf() || z.IsZero() || z.Signbit() {
		c.Violate("wrong-value", fmt.Sprintf("%s: stored %s", what, z.Text('p', 0)[:40]), "")
		return
	}
	if minPrec > prec {
		c.Violate("wrong-value", fmt.Sprintf("%s: the receiver has precision %d but holds %d significant digits (not rounded), Acc()=%d", what, prec, minPrec, acc), "")
		return
	}
	wantAcc := -1 // the cut-off part 0...07 is dropped ...
	if mode == oracle.AwayFromZero || mode == oracle.ToPositiveInf {
		wantAcc = 1 // ... or the last kept digit is bumped
	}
	if acc != wantAcc {
		c.Violate("wrong-acc", fmt.Sprintf("%s: Acc()=%d, want %d (52 digits were cut off, the last of them a 7)", what, acc, wantAcc), "")
	}
}

// c20HugeZeros: a slice whose more than 2^31/19 most significant words are zero (the one non-zero word is the lowest:
// 0.9 GB of untouched zero pages) with an exponent far beyond the range. Stripping the zero words lowers the exponent
// by more than 2^31 digits - not enough to bring 2^40 back into the range: the result is +Inf, Above.
func c20HugeZeros(c *hx.Ctx, r *hx.RNG) {
	n := (1<<31)/19 + r.Range(100000, 700000)
	e := int64(1)<<40 + int64(r.Range(0, 1000))
	mode := r.Mode()
	what := fmt.Sprintf("SetBitsExp(%d words, all zero but the lowest; exponent %d) prec=20 mode=%s", n, e, oracle.ModeNames[mode])
	c.Note(what)
	w := make([]decimal.Word, n)
	w[0] = decimal.Word(7 + r.Intn(1000))
	z := newRecv(20, mode)
	pi := hx.Try(func() { z.SetBitsExp(w, e) })
	c.Eval(hx.HashStr(what), true, "SetBitsExp/more-than-2^31-leading-zero-digits")
	if pi != nil {
		c.Violate("panic", fmt.Sprintf("%s: %s panic %q at %s", what, pi.Class, pi.Text, pi.Stack), "")
		return
	}
	if !z.IsInf() || z.Signbit() || z.Acc() != decimal.Above {
		c.Violate("wrong-value", fmt.Sprintf("%s: stored %s, want +Inf (Above): the value is about 10^(%d - 19 x %d)", what, hx.RawOf(z), e, n-1), "")
	}
}

func c20Case(c *hx.Ctx, r *hx.RNG, idx int64) {
	if m := idx % 2500000; m == 9 || m == 41 { // (same shard: precision 0, then a small explicit precision)
		c20Huge(c, r, m == 41)
		releaseHuge()
		return
	}
	if idx%2500000 == 25 { // (same shard as the case above: one after the other)
		c20HugeZeros(c, r)
		releaseHuge()
		return
	}
	switch k := r.Intn(100); {
	case k < 45:
		c20SetBitsExp(c, r)
	case k < 60:
		c20BitsExp(c, r)
	case k < 75:
		c20MantExp(c, r)
	default:
		c20SetMantExp(c, r)
	}
}

func valueVerdict(c *hx.Ctx, what string, o oracle.Outcome, got hx.State, p int64, mode int, kf string) bool {
	exp := o.Expect(p, mode)
	m1 := oracle.Equal(exp.V, got.V)
	m2, _ := o.Check(got.V, got.Acc, p, mode)
	if c.Verbose {
		fmt.Printf("  stored %s; model #1 %s acc=%d; model #2 %q\n", got, exp.V.Full(), exp.Acc, m2)
	}
	switch {
	case m1 && m2 == "":
		return true
	case !m1 && m2 != "":
		c.Violate("wrong-value", fmt.Sprintf("%s: stored %s, want %s (%s)", what, got.V.Full(), exp.V.Full(), m2), kf)
	default:
		c.Inconclusive(fmt.Sprintf("oracle self-check: models disagree on %s: stored %s, model #1 %s (equal=%v), model #2 %q", what, got.V.Full(), exp.V.Full(), m1, m2))
	}
	return false
}

func c20SetBitsExp(c *hx.Ctx, r *hx.RNG) {
	n := r.Range(0, 40)
	if r.Chance(40) {
		n = r.Range(0, 5)
	}
	w := make([]decimal.Word, n)
	for i := range w {
		w[i] = genWord(r)
	}
	shape := "random"
	if n > 0 {
		switch r.Intn(6) {
		case 0: // leading (high) zero words
			for i, k := n-1, r.Range(1, n); i >= n-k; i-- {
				w[i] = 0
			}
			shape = "high-zero-words"
		case 1: // low zero words
			for i, k := 0, r.Range(1, n); i < k; i++ {
				w[i] = 0
			}
			shape = "low-zero-words"
		case 2: // unnormalised top word (1..18 digits)
			w[n-1] = decimal.Word(1 + r.U64()%uint64(math.Pow10(r.Range(0, 17))*9+1))
			shape = "short-top-word"
		case 3:
			for i := range w {
				w[i] = 0
			}
			shape = "all-zero"
		case 4:
			for i := range w {
				w[i] = decimal.Word(wb - 1)
			}
			shape = "all-nines"
		}
	}
	e := r.LeadExp()
	switch r.Intn(10) {
	case 0, 1:
		e = extremeI64[r.Intn(len(extremeI64))]
	case 2:
		e = int64(r.U64())
	case 3: // land within a few digits of a range end
		e = []int64{oracle.MaxExp, oracle.MinExp}[r.Intn(2)] + int64(r.Range(-25, 25))
	}
	p := int64(r.Range(1, 60))
	switch r.Intn(8) {
	case 0:
		p = 0
	case 1:
		p = int64(maxI(1, 19*n+r.Range(-20, 3)))
	case 2:
		p = int64(r.Range(1, 19*maxI(n, 1)))
	}
	mode := r.Mode()
	z := newRecv(p, mode)
	own := p > 0 && n > 0 && r.Chance(30)
	if own {
		// the documented idiom: the receiver's own mantissa, obtained from BitsExp and edited in place
		seed := make([]decimal.Word, n)
		for i := range seed {
			seed[i] = genWord(r)
		}
		seed[n-1] = decimal.Word(wb/10 + r.U64()%(wb-wb/10))
		z.SetBitsExp(seed, int64(r.Range(-50, 50)))
		m, _ := z.BitsExp()
		if len(m) == 0 {
			own = false
		} else {
			if len(m) > 1 && r.Chance(40) {
				m = m[r.Range(1, len(m)-1):] // the upper words only (the low ones dropped by re-slicing): the slice starts inside the receiver's array
				shape += "/resliced"
			}
			copy(m, w[n-len(m):])
			w, n = m, len(m)
			shape += "/own-slice"
		}
	} else if p > 0 && r.Chance(30) { // the receiver held something else before (a precision-0 receiver cannot hold a finite value)
		z.SetInt64(-987654321)
	}
	coef := wordsToBig(w)
	what := fmt.Sprintf("SetBitsExp(%v, %d) prec=%d mode=%s own=%v", w, e, p, oracle.ModeNames[mode], own)
	c.Note(what)
	if c.Verbose {
		fmt.Println("case:", what)
	}
	win := cloneW(w)
	pi := hx.Try(func() { z.SetBitsExp(w, e) })
	cls := "SetBitsExp/" + shape
	if p == 0 {
		cls = "SetBitsExp/prec0/" + shape
	}
	c.Eval(hx.HashStr(what), n > 0, cls)
	if c.WantSample(cls) {
		c.Sample(cls, what)
	}
	if pi != nil {
		c.Violate("panic", fmt.Sprintf("%s: %s panic %q at %s", what, pi.Class, pi.Text, pi.Stack), "")
		return
	}
	got := hx.Snapshot(z)
	// exact value: coef x 10^(e - 19 n), positive
	ee := new(big.Int).Sub(big.NewInt(e), big.NewInt(19*int64(n)))
	o := identBigSigned(false, coef, ee)
	if coef.Sign() == 0 {
		if got.V.Form != oracle.Zero || got.V.Neg {
			c.Violate("wrong-value", fmt.Sprintf("%s (input %v): all-zero mantissa must give +0, stored %s", what, win, got), "")
		}
		return
	}
	pe := p
	if p == 0 {
		// undocumented precision for a precision-0 receiver: the value must be stored exactly and fit its precision
		pe = int64(got.Prec)
		if pe < 1 {
			c.Violate("wrong-value", fmt.Sprintf("%s: precision-0 receiver left with precision 0 holding %s", what, got), "")
			return
		}
		ex := o.Ex.(oracle.ExDec)
		if mp := (oracle.Val{Form: oracle.Finite, Coef: ex.Coef}).MinPrec(); mp > pe && got.V.Form == oracle.Finite {
			c.Violate("wrong-value", fmt.Sprintf("%s: precision-0 receiver got precision %d, the slice has %d significant digits (value rounded)", what, pe, mp), "")
			return
		}
		// SetBitsExp normalizes its argument: leading zero words must not influence the precision either
		if ref := setBitsExpRefPrec(win); uint(pe) != ref {
			c.Violate("wrong-value", fmt.Sprintf("%s: precision-0 receiver got precision %d, the same mantissa without its leading zero words gives %d", what, pe, ref), "")
			return
		}
	} else if int64(got.Prec) != p {
		c.Violate("precision-changed", fmt.Sprintf("%s: receiver precision became %d", what, got.Prec), "")
	}
	if got.V.Neg {
		c.Violate("wrong-value", what+": SetBitsExp must give a positive value, stored "+got.String(), "")
		return
	}
	valueVerdict(c, what, o, got, pe, mode, "")
}

// c20BitsExp: the pair returned by BitsExp denotes exactly the magnitude, checked
// against an independent read-out of the same value ('p' format text).
func c20BitsExp(c *hx.Ctx, r *hx.RNG) {
	if r.Chance(25) {
		c20BitsExpSpecial(c, r)
		return
	}
	l := hx.LimitsFor("quick")
	v := r.Finite(r.Range(1, 200), r.LeadExp())
	if r.Chance(30) { // low zero words in the stored mantissa
		v.Coef = new(big.Int).Mul(v.Coef, oracle.Pow10(int64(r.Range(1, 60))))
		v = inRange(v)
	}
	_ = l
	var x *decimal.Decimal
	route := r.Intn(3)
	if route == 1 && v.LeadExp() >= oracle.MaxExp-1 {
		route = 2 // v+v would overflow
	}
	switch route {
	case 0: // through the parser
		x = new(decimal.Decimal).SetPrec(uint(oracle.Digits(v.Coef)) + uint(r.Intn(30)))
		if _, ok := x.SetString(v.Full()[1:]); !ok {
			c.Inconclusive("BitsExp: SetString rejected " + v.Full())
			return
		}
		if v.Neg {
			x.Neg(x)
		}
	case 1: // through arithmetic: (v + v) - v
		a := hx.Mk(v, digitsOf(v)+2, 0)
		x = new(decimal.Decimal).SetPrec(uint(oracle.Digits(v.Coef)) + 5)
		x.Add(a, a)
		x.Sub(x, a)
	default:
		x = hx.Mk(v, digitsOf(v)+uint(r.Intn(40)), r.Mode())
	}
	what := fmt.Sprintf("BitsExp of %s (route %d)", v.Full(), route)
	c.Note(what)
	if x.IsInf() || x.IsZero() || x.Cmp(hx.Mk(v, digitsOf(v), 0)) != 0 {
		c.Inconclusive(what + ": the value could not be constructed through this route")
		return
	}
	m, e := x.BitsExp()
	mag := wordsToBig(m)
	c.Eval(hx.HashStr(what), true, fmt.Sprintf("BitsExp/route%d", route))
	if mag.Sign() == 0 {
		c.Violate("wrong-value", what+": BitsExp returned a zero mantissa for a finite value", "")
		return
	}
	got := oracle.Val{Form: oracle.Finite, Neg: v.Neg, Coef: mag, Exp: int64(e) - 19*int64(len(m))}
	if !oracle.Equal(got, v) {
		c.Violate("wrong-value", fmt.Sprintf("%s: BitsExp denotes %s", what, got.Full()), "")
		return
	}
	// 0.mant x 10^exp: the leading digit's exponent is exp
	if got.LeadExp() != int64(e) {
		c.Violate("wrong-value", fmt.Sprintf("%s: BitsExp exponent %d but the mantissa's leading digit is at %d (not normalized)", what, e, got.LeadExp()), "")
	}
	// independent read-out
	txt := x.Text('p', 0)
	if pv, ok := parseP(txt); !ok || !oracle.Equal(pv, v) {
		c.Violate("wrong-value", fmt.Sprintf("%s: Text('p') = %q denotes something else", what, trunc120(txt)), "")
	}
}

func trunc120(s string) string {
	if len(s) > 120 {
		return s[:120] + "..."
	}
	return s
}

// parseP reads "-0.ddddde±xx" / "0" / "±Inf".
func parseP(s string) (oracle.Val, bool) {
	neg := false
	if len(s) > 0 && (s[0] == '-' || s[0] == '+') {
		neg = s[0] == '-'
		s = s[1:]
	}
	switch s {
	case "0":
		return oracle.Val{Form: oracle.Zero, Neg: neg}, true
	case "Inf":
		return oracle.Val{Form: oracle.Inf, Neg: neg}, true
	}
	if len(s) < 4 || s[:2] != "0." {
		return oracle.Val{}, false
	}
	s = s[2:]
	i := 0
	for i < len(s) && s[i] >= '0' && s[i] <= '9' {
		i++
	}
	if i == 0 || i >= len(s) || s[i] != 'e' {
		return oracle.Val{}, false
	}
	c, ok := new(big.Int).SetString(s[:i], 10)
	if !ok || c.Sign() == 0 {
		return oracle.Val{}, false
	}
	var e int64
	if _, err := fmt.Sscanf(s[i+1:], "%d", &e); err != nil {
		return oracle.Val{}, false
	}
	return oracle.Val{Form: oracle.Finite, Neg: neg, Coef: c, Exp: e - int64(i)}, true
}

func c20MantExp(c *hx.Ctx, r *hx.RNG) {
	var v oracle.Val
	switch r.Intn(10) {
	case 0:
		v = oracle.Val{Form: oracle.Zero, Neg: r.Bool()}
	case 1:
		v = oracle.Val{Form: oracle.Inf, Neg: r.Bool()}
	default:
		v = r.Finite(r.Range(1, 120), r.LeadExp())
	}
	xm, xp := r.Mode(), digitsOf(v)+uint(r.Intn(30))
	x := hx.MkR(r, v, xp, xm)
	if r.Chance(30) && v.Form == oracle.Finite && xp > 1 {
		// give x a non-Exact accuracy: attributes are copied to mant as they are
		x.SetPrec(uint(r.Range(1, int(xp)-1)))
		xp = x.Prec()
		v = hx.Read(x)
	}
	shape := r.Intn(3) // 0: nil mant, 1: fresh mant, 2: x.MantExp(x)
	what := fmt.Sprintf("MantExp of %s (shape %d)", v.Full(), shape)
	c.Note(what)
	pre := hx.Snapshot(x)
	var mant *decimal.Decimal
	switch shape {
	case 1:
		mant = newRecv(int64(r.Range(0, 50)), r.Mode())
		if r.Chance(30) {
			mant = new(decimal.Decimal) // the documented idiom: a zero-value destination
		} else if r.Bool() {
			mant.SetInt64(424242)
		}
	case 2:
		mant = x
	}
	var e int
	pi := hx.Try(func() { e = x.MantExp(mant) })
	c.Eval(hx.HashStr(what), v.Form == oracle.Finite, fmt.Sprintf("MantExp/shape%d", shape))
	if pi != nil {
		c.Violate("panic", fmt.Sprintf("%s: %s panic %q", what, pi.Class, pi.Text), "")
		return
	}
	wantE := int64(0)
	if v.Form == oracle.Finite {
		wantE = v.LeadExp()
	}
	if int64(e) != wantE {
		c.Violate("wrong-exponent", fmt.Sprintf("%s: returned %d, want %d", what, e, wantE), "")
		return
	}
	if shape != 2 && !hx.SameState(pre, hx.Snapshot(x)) {
		c.Violate("operand-modified", what+": x changed", "")
		return
	}
	if mant == nil {
		return
	}
	mv := hx.Snapshot(mant)
	wantM := v
	if v.Form == oracle.Finite {
		wantM.Exp = -oracle.Digits(v.Coef) // 0.ddd: in [0.1, 1)
	}
	if !oracle.Equal(mv.V, wantM) {
		c.Violate("wrong-mantissa", fmt.Sprintf("%s: mant = %s, want %s", what, mv.V.Full(), wantM.Full()), "")
		return
	}
	if mv.Prec != pre.Prec || mv.Mode != pre.Mode {
		c.Violate("attributes-not-copied", fmt.Sprintf("%s: mant has prec=%d mode=%d, x has prec=%d mode=%d", what, mv.Prec, mv.Mode, pre.Prec, pre.Mode), "")
	}
	// x == mant x 10^exp: rebuild through SetMantExp (the documented identity)
	if shape == 1 && v.Form == oracle.Finite {
		back := new(decimal.Decimal).SetMantExp(mant, e)
		if bv := hx.Read(back); !oracle.Equal(bv, v) || back.Cmp(hx.Mk(v, xp, 0)) != 0 {
			c.Violate("identity-broken", fmt.Sprintf("%s: SetMantExp(mant, MantExp(mant)) = %s", what, bv.Full()), "")
		}
	}
	// mant and x are two values from now on: modifying one in place must not show in the other
	if shape == 1 && v.Form == oracle.Finite {
		xRaw := hx.RawOf(x)
		if mp := mant.MinPrec(); mp > 1 {
			mant.SetPrec(mp - 1)
		}
		mant.Neg(mant)
		mant.Add(mant, mant)
		if !xRaw.Identical(hx.RawOf(x)) {
			c.Violate("operand-modified", fmt.Sprintf("%s: rounding, negating and doubling mant in place afterwards changed x to %s", what, hx.RawOf(x)), "")
			return
		}
		mRaw := hx.RawOf(mant)
		if mp := x.MinPrec(); mp > 1 {
			x.SetPrec(mp - 1)
		}
		x.Neg(x)
		x.Add(x, x)
		if !mRaw.Identical(hx.RawOf(mant)) {
			c.Violate("operand-modified", fmt.Sprintf("%s: rounding, negating and doubling x in place afterwards changed mant to %s", what, hx.RawOf(mant)), "")
		}
	}
}

func c20SetMantExp(c *hx.Ctx, r *hx.RNG) {
	var v oracle.Val
	switch r.Intn(12) {
	case 0:
		v = oracle.Val{Form: oracle.Zero, Neg: r.Bool()}
	case 1:
		v = oracle.Val{Form: oracle.Inf, Neg: r.Bool()}
	default:
		v = r.Finite(r.Range(1, 80), r.LeadExp())
		if r.Chance(20) { // all nines: must not be rounded by an exact rescaling
			v.Coef = new(big.Int).Sub(oracle.Pow10(int64(r.Range(1, 60))), big.NewInt(1))
			v = inRange(v)
		}
	}
	k := int64(r.Range(-200, 200))
	cls := "SetMantExp/small-offset"
	switch r.Intn(10) {
	case 0, 1, 2: // land within a few digits of a range end
		if v.Form == oracle.Finite {
			k = []int64{oracle.MaxExp, oracle.MinExp}[r.Intn(2)] + int64(r.Range(-4, 4)) - v.LeadExp()
			cls = "SetMantExp/range-end"
		}
	case 3:
		k = extremeI64[r.Intn(len(extremeI64))]
		cls = "SetMantExp/int64-extreme"
	case 4:
		k = int64(r.U64())
		cls = "SetMantExp/any-int64"
	case 5:
		k = r.LeadExp()
		cls = "SetMantExp/large-offset"
	}
	mm, mp := r.Mode(), digitsOf(v)+uint(r.Intn(20))
	mant := hx.MkR(r, v, mp, mm)
	shape := r.Intn(2) // 0 fresh receiver, 1 z == mant
	z := mant
	if shape == 0 {
		z = newRecv(int64(r.Range(0, 40)), r.Mode())
		if r.Bool() {
			z.SetInt64(-5)
		}
	}
	what := fmt.Sprintf("SetMantExp(%s prec=%d, %d) shape=%d", v.Full(), mp, k, shape)
	c.Note(what)
	if c.Verbose {
		fmt.Println("case:", what)
	}
	pre := hx.Snapshot(mant)
	pi := hx.Try(func() { z.SetMantExp(mant, int(k)) })
	c.Eval(hx.HashStr(what), v.Form == oracle.Finite, cls)
	if c.WantSample(cls) {
		c.Sample(cls, what)
	}
	if pi != nil {
		c.Violate("panic", fmt.Sprintf("%s: %s panic %q", what, pi.Class, pi.Text), "")
		return
	}
	got := hx.Snapshot(z)
	if shape == 0 && !hx.SameState(pre, hx.Snapshot(mant)) {
		c.Violate("operand-modified", what+": mant changed", "")
		return
	}
	if got.Prec != pre.Prec || got.Mode != pre.Mode {
		c.Violate("attributes-not-copied", fmt.Sprintf("%s: result has prec=%d mode=%d, mant has prec=%d mode=%d", what, got.Prec, got.Mode, pre.Prec, pre.Mode), "")
		return
	}
	var o oracle.Outcome
	if v.Form == oracle.Finite {
		o = identBigSigned(v.Neg, v.Coef, new(big.Int).Add(big.NewInt(v.Exp), big.NewInt(k)))
	} else {
		o = oracle.Ident(v)
	}
	valueVerdict(c, what, o, got, int64(mp), mm, "")
}

// c20BitsExpSpecial: a zero or an infinity that held a finite value before denotes magnitude 0 / has no mantissa:
// BitsExp must not hand out the digits of the previous value, and feeding its result back must not resurrect them.
func c20BitsExpSpecial(c *hx.Ctx, r *hx.RNG) {
	v := r.Finite(r.Range(1, 80), r.LeadExp())
	x := hx.Mk(v, digitsOf(v)+uint(r.Intn(10)), r.Mode())
	how := r.Intn(7)
	name := []string{"SetPrec(0)", "SetUint64(0)", "Sub(x,x)", "Mul(x,0)", "SetMantExp underflow", "SetMantExp overflow", "SetInf"}[how]
	wantInf := false
	pi := hx.Try(func() {
		switch how {
		case 0:
			x.SetPrec(0)
		case 1:
			x.SetUint64(0)
		case 2:
			x.Sub(x, x)
		case 3:
			x.Mul(x, new(decimal.Decimal))
		case 4:
			for i := 0; i < 4 && !x.IsZero(); i++ { // a large value needs more than one push
				x.SetMantExp(x, math.MinInt32)
			}
		case 5:
			for i := 0; i < 4 && !x.IsInf(); i++ { // a tiny value needs more than one push
				x.SetMantExp(x, math.MaxInt32)
			}
			wantInf = true
		default:
			x.SetInf(r.Bool())
			wantInf = true
		}
	})
	what := fmt.Sprintf("BitsExp after %s on a variable that held %s", name, v.Full())
	c.Note(what)
	c.Eval(hx.HashStr(what), true, "BitsExp/after-"+name)
	if pi != nil {
		c.Violate("panic", fmt.Sprintf("%s: %s panic %q", what, pi.Class, pi.Text), "")
		return
	}
	if x.IsInf() != wantInf || (!wantInf && !x.IsZero()) {
		c.Inconclusive(what + ": the variable did not become the special value the step was meant to produce")
		return
	}
	m, _ := x.BitsExp()
	if len(m) != 0 {
		c.Violate("stale-mantissa", fmt.Sprintf("%s: BitsExp returns %d mantissa word(s) %v for a zero/infinity", what, len(m), m), "")
		return
	}
	if !wantInf {
		m2, e2 := x.BitsExp()
		z := new(decimal.Decimal).SetPrec(40).SetBitsExp(m2, int64(e2))
		if !z.IsZero() {
			c.Violate("stale-mantissa", fmt.Sprintf("%s: SetBitsExp(BitsExp(x)) = %s, want 0", what, hx.RawOf(z)), "")
		}
	}
}
