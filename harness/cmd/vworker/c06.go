package main

import (
	"fmt"
	"math/big"

	"github.com/db47h/decimal"

	"verifharness/hx"
	"verifharness/oracle"
)

// C06 — long multiplication, squaring and division are exact at every size and
// for every value of the tuning thresholds.

func init() {
	engines["C06"] = &engine{
		N:      tierN(56000, 3000000),
		Setup:  func(c *hx.Ctx) { decimal.VerifResetHits() },
		Case:   c06Case,
		Finish: func(c *hx.Ctx) { exportHits(c) },
	}
}

var siteNames = []string{"div_add_back", "div_qhat_fix", "div_rec_fix1", "div_rec_fix2", "div_recursive", "karatsuba", "karatsuba_negative", "karatsuba_sqr", "basic_sqr", "round", "round_carry", "round_overflow", "cancel", "underflow", "overflow", "pool_get", "pool_put"}

// exportHits moves the library's branch-hit counters into the shard's counters.
func exportHits(c *hx.Ctx) {
	old := decimal.VerifResetHits()
	for i, n := range old {
		if i < len(siteNames) {
			c.Count("hit_"+siteNames[i], int64(n))
		}
	}
}

const wb = hx.WordBase

var edgeW = []uint64{0, 0, 1, 2, 10, 1000000000, wb / 10, wb/2 - 1, wb / 2, wb/2 + 1, wb - 2, wb - 1, wb - 1, wb - 1,
	wb / 3, wb/3 + 1, wb / 6, wb/6 + 1, wb / 7, wb / 9, wb / 4, wb / 5,
	1 << 63, 1<<63 - 1, 1 << 62, 1<<64 - wb, 1<<64 - wb - 1, 1 << 32} // ... and binary boundaries: two valid words can sum to 2^64 - 1, 2^64 // B/k: where B/(v+1) and (B-1)/v differ

func genWord(r *hx.RNG) decimal.Word {
	if r.Chance(45) {
		return decimal.Word(edgeW[r.Intn(len(edgeW))])
	}
	return decimal.Word(r.U64() % wb)
}

// genWords returns n words with a non-zero top word.
func genWords(r *hx.RNG, n int) []decimal.Word {
	w := make([]decimal.Word, n)
	uniform := r.Chance(30)
	for i := range w {
		if uniform {
			w[i] = decimal.Word(r.U64() % wb)
		} else {
			w[i] = genWord(r)
		}
	}
	if n > 0 && w[n-1] == 0 {
		w[n-1] = decimal.Word(1 + r.U64()%(wb-1))
	}
	return w
}

func wordsToBig(w []decimal.Word) *big.Int {
	u := make([]uint, len(w))
	for i, x := range w {
		u[i] = uint(x)
	}
	return oracle.FromWords(u)
}

func bigToWords(x *big.Int) []decimal.Word {
	u := oracle.ToWords(x, 0)
	w := make([]decimal.Word, len(u))
	for i, v := range u {
		w[i] = decimal.Word(v)
	}
	return w
}

func wordsBad(w []decimal.Word) int {
	for i, x := range w {
		if uint64(x) >= wb {
			return i
		}
	}
	return -1
}

func natLen(r *hx.RNG, tier string) int {
	k := r.Intn(100)
	switch {
	case k < 40:
		return r.Range(1, 12)
	case k < 75:
		return r.Range(8, 70)
	case k < 93:
		return r.Range(60, 130)
	case k < 99:
		return r.Range(100, 260)
	default:
		if tier == "thorough" {
			return r.Range(200, 1100)
		}
		return r.Range(200, 420)
	}
}

// poison overwrites pool buffers with a value no mantissa word can have.
func poison(buf []decimal.Word, put bool) {
	v := decimal.Word(0xFFFFFFFFFFFFFFFF)
	if put {
		v = 0xEEEEEEEEEEEEEEEE
	}
	for i := range buf {
		buf[i] = v
	}
}

func wstr(w []decimal.Word) string {
	if len(w) <= 8 {
		return fmt.Sprint(w)
	}
	return fmt.Sprintf("%v ... %v (%d words)", w[:4], w[len(w)-4:], len(w))
}

func c06Case(c *hx.Ctx, r *hx.RNG, idx int64) {
	// thresholds: defaults half of the time, otherwise a random assignment; changed only here, single-threaded
	kt, bs, ks := 30, 10, 50
	if r.Bool() {
		kt = r.Range(2, 40)
		bs = []int{1, 2, 3, 5, 10, 20}[r.Intn(6)]
		ks = []int{2, 3, 4, 6, 11, 50, 100}[r.Intn(7)]
	}
	ok, obs, oks := decimal.VerifSetThresholds(kt, bs, ks)
	defer decimal.VerifSetThresholds(ok, obs, oks)
	poisoned := r.Bool()
	if poisoned {
		decimal.VerifPoolFn = poison
		defer func() { decimal.VerifPoolFn = nil }()
	}
	thr := fmt.Sprintf("thresholds(k=%d,bs=%d,ks=%d) poison=%v", kt, bs, ks, poisoned)
	kind := r.Intn(100)
	hugeDiv := idx%9000 == 11 // a few divisions per run with a divisor of more than 6 200 words (118 000 digits): the
	// recursion is seven levels deep there, one more than anything below
	if hugeDiv {
		kind = 60
	}
	switch {
	case kind < 30: // mul
		m, n := natLen(r, c.Tier), natLen(r, c.Tier)
		switch r.Intn(4) {
		case 0:
			n = m
		case 1:
			n = maxI(1, m/2)
		case 2:
			n = maxI(1, m/10)
		}
		x, y := genWords(r, m), genWords(r, n)
		c.Note(fmt.Sprintf("mul %d x %d words %s", m, n, thr))
		var z []decimal.Word
		if r.Chance(30) {
			z = make([]decimal.Word, r.Range(0, m+n+8)) // dirty destination buffer
			for i := range z {
				z[i] = decimal.Word(wb - 1)
			}
		}
		got := decimal.VerifMul(z, x, y)
		want := new(big.Int).Mul(wordsToBig(x), wordsToBig(y))
		cls := "mul/" + lenBucket(maxI(m, n))
		c.Eval(r.U64(), m > 1 && n > 1, cls)
		if c.WantSample(cls) {
			c.Sample(cls, fmt.Sprintf("mul x=%s y=%s %s", wstr(x), wstr(y), thr))
		}
		if i := wordsBad(got); i >= 0 {
			c.Violate("word-not-below-base", fmt.Sprintf("mul %s: product word %d = %d; x=%v y=%v", thr, i, got[i], x, y), "")
			return
		}
		if wordsToBig(got).Cmp(want) != 0 {
			c.Violate("wrong-product", fmt.Sprintf("mul %s: x=%v y=%v got %v", thr, x, y, got), "")
		}
	case kind < 48: // sqr
		m := natLen(r, c.Tier)
		x := genWords(r, m)
		c.Note(fmt.Sprintf("sqr %d words %s", m, thr))
		got := decimal.VerifSqr(nil, x)
		xb := wordsToBig(x)
		want := new(big.Int).Mul(xb, xb)
		cls := "sqr/" + lenBucket(m)
		c.Eval(r.U64(), m > 1, cls)
		if c.WantSample(cls) {
			c.Sample(cls, fmt.Sprintf("sqr x=%s %s", wstr(x), thr))
		}
		if i := wordsBad(got); i >= 0 {
			c.Violate("word-not-below-base", fmt.Sprintf("sqr %s: word %d = %d; x=%v", thr, i, got[i], x), "")
			return
		}
		if wordsToBig(got).Cmp(want) != 0 {
			c.Violate("wrong-square", fmt.Sprintf("sqr %s: x=%v got %v", thr, x, got), "")
		}
	case kind < 85: // div
		u, v, cls := genDivision(r, c.Tier)
		if hugeDiv {
			n := r.Range(6211, 6300)
			if c.Tier == "thorough" && r.Bool() {
				n = r.Range(12419, 12700)
			}
			v, u, cls = genWords(r, n), genWords(r, n+r.Range(n/2, n)), "huge-divisor"
		}
		c.Note(fmt.Sprintf("div %d / %d words %s %s", len(u), len(v), cls, thr))
		ub, vb := wordsToBig(u), wordsToBig(v)
		ucopy := append([]decimal.Word(nil), u...)
		vcopy := append([]decimal.Word(nil), v...)
		// destination buffers: nil, or buffers that held longer values before (valid words, enough capacity to be reused)
		var zq, zr []decimal.Word
		if r.Chance(45) {
			zq = genWords(r, len(u)+r.Range(1, 8))
			for i := range zq {
				if zq[i] == 0 {
					zq[i] = decimal.Word(wb - 1)
				}
			}
			c.Classes["div-stale-quotient-buffer"]++
		}
		if r.Chance(30) {
			zr = genWords(r, len(u)+r.Range(2, 8))
		}
		q, rem := decimal.VerifDiv(zq, zr, u, v)
		c.Eval(r.U64(), len(v) > 1, "div/"+cls+"/"+lenBucket(len(v)))
		if c.WantSample("div/" + cls) {
			c.Sample("div/"+cls, fmt.Sprintf("div u=%s v=%s %s", wstr(ucopy), wstr(vcopy), thr))
		}
		for i := range ucopy {
			if u[i] != ucopy[i] {
				c.Violate("operand-modified", fmt.Sprintf("div %s: dividend word %d changed; u=%v v=%v", thr, i, ucopy, vcopy), "")
				return
			}
		}
		for i := range vcopy {
			if v[i] != vcopy[i] {
				c.Violate("operand-modified", fmt.Sprintf("div %s: divisor word %d changed; u=%v v=%v", thr, i, ucopy, vcopy), "")
				return
			}
		}
		if i := wordsBad(q); i >= 0 {
			c.Violate("word-not-below-base", fmt.Sprintf("div %s: quotient word %d = %d; u=%v v=%v", thr, i, q[i], ucopy, vcopy), "")
			return
		}
		if i := wordsBad(rem); i >= 0 {
			c.Violate("word-not-below-base", fmt.Sprintf("div %s: remainder word %d = %d; u=%v v=%v", thr, i, rem[i], ucopy, vcopy), "")
			return
		}
		qb, rb := wordsToBig(q), wordsToBig(rem)
		wq, wr := new(big.Int).QuoRem(ub, vb, new(big.Int))
		if qb.Cmp(wq) != 0 || rb.Cmp(wr) != 0 {
			c.Violate("wrong-quotient-or-remainder", fmt.Sprintf("div %s [%s]: u=%v v=%v got q=%v r=%v", thr, cls, ucopy, vcopy, q, rem), "")
		}
	default: // end to end through Mul / Quo
		if r.Bool() {
			m, n := natLen(r, c.Tier), natLen(r, c.Tier)
			x, y := genWords(r, m), genWords(r, n)
			xv := oracle.Val{Form: oracle.Finite, Neg: r.Bool(), Coef: wordsToBig(x), Exp: int64(r.Range(-30, 30))}
			yv := oracle.Val{Form: oracle.Finite, Neg: r.Bool(), Coef: wordsToBig(y), Exp: int64(r.Range(-30, 30))}
			k := &opCase{op: "Mul", x: xv, y: yv, mode: r.Mode(), class: "e2e"}
			k.p = oracle.Digits(xv.Coef) + oracle.Digits(yv.Coef) // the exact product fits
			if r.Chance(30) {
				k.p -= int64(r.Range(1, 40))
				if k.p < 1 {
					k.p = 1
				}
			}
			if r.Chance(25) {
				k.y, k.sameXY = k.x, true
			}
			c06E2E(c, k, thr)
		} else {
			u, v, cls := genDivision(r, c.Tier)
			xv := oracle.Val{Form: oracle.Finite, Neg: r.Bool(), Coef: wordsToBig(u), Exp: int64(r.Range(-30, 30))}
			yv := oracle.Val{Form: oracle.Finite, Neg: r.Bool(), Coef: wordsToBig(v), Exp: int64(r.Range(-30, 30))}
			k := &opCase{op: "Quo", x: xv, y: yv, mode: r.Mode(), class: "e2e-" + cls}
			qd := oracle.Digits(new(big.Int).Quo(xv.Coef, yv.Coef))
			k.p = qd + int64(r.Range(-2, 25))
			if k.p < 1 {
				k.p = 1
			}
			c06E2E(c, k, thr)
		}
	}
}

func c06E2E(c *hx.Ctx, k *opCase, thr string) {
	c.Note(k.desc(false) + " " + thr)
	got, pi := k.exec()
	cls := k.op + "/" + k.class
	c.Eval(k.key(), true, cls)
	if c.WantSample(cls) {
		c.Sample(cls, k.desc(false)+" "+thr)
	}
	if pi != nil {
		if pi.Class == "mk" || pi.Class == "cost" {
			panic(pi.Val)
		}
		c.Violate("panic", fmt.Sprintf("%s %s: %s panic %q at %s", k.desc(true), thr, pi.Class, pi.Text, pi.Stack), "")
		return
	}
	v := k.judge(got)
	if !v.m1Value && v.m2Value != "" {
		c.Violate("wrong-value", fmt.Sprintf("%s %s: stored %s, want %s (%s)", k.desc(true), thr, got.V.Full(), v.exp.V.Full(), v.m2Value), "")
		return
	}
	if v.m1Value != (v.m2Value == "") {
		c.Inconclusive("oracle self-check: models disagree on " + k.desc(true))
		return
	}
	if v.m2Acc != "" && !v.m1AccOK {
		c.Violate("wrong-exactness", fmt.Sprintf("%s %s: stored %s acc=%d: %s", k.desc(true), thr, got.V.Full(), got.Acc, v.m2Acc), "")
	}
}

func lenBucket(n int) string {
	switch {
	case n == 1:
		return "1"
	case n < 10:
		return "2-9"
	case n < 30:
		return "10-29"
	case n < 50:
		return "30-49"
	case n < 100:
		return "50-99"
	case n < 200:
		return "100-199"
	}
	return "200+"
}

// genDivision builds a dividend/divisor pair (both normalized: non-zero top word).
func genDivision(r *hx.RNG, tier string) (u, v []decimal.Word, cls string) {
	n := natLen(r, tier)
	if r.Chance(15) && n < 100 {
		n = r.Range(100, 230) // recursive division
	}
	switch r.Intn(10) {
	case 8: // even-length divisor of 100+ words, dividend exactly 1.5 times as long, words from the edge set only:
		// the lower quotient block of the recursive division is computed with the tightest bound on its estimate
		n = 2 * r.Range(50, 115)
		edge := func(k int) []decimal.Word {
			w := make([]decimal.Word, k)
			for i := range w {
				w[i] = decimal.Word([]uint64{0, wb - 1, 1, wb / 2}[r.Intn(4)])
				if r.Chance(8) {
					w[i] = decimal.Word(r.U64() % wb)
				}
			}
			if w[k-1] == 0 {
				w[k-1] = 1
			}
			return w
		}
		v = edge(n)
		u = edge(n + n/2 + []int{0, 0, 0, 1, -1}[r.Intn(5)])
		return u, v, "recursive-lower-block-edge-words"
	case 7: // the final (lower) block of a recursive division with the largest possible over-estimate:
		// minimal high half (base/2, zeros), maximal low half (all nines), quotient of all nines
		n = 2 * r.Range(50, 100)
		B := n / 2
		v = make([]decimal.Word, n)
		for i := 0; i < B; i++ {
			v[i] = decimal.Word(wb - 1)
		}
		v[n-1] = decimal.Word(wb/2 + r.U64()%3)
		if r.Chance(30) {
			v[B+r.Intn(B-1)] = decimal.Word(r.U64() % 5)
		}
		ql := B
		if r.Chance(25) {
			ql = B - r.Range(0, 2)
		}
		q := make([]decimal.Word, ql)
		for i := range q {
			q[i] = decimal.Word(wb - 1 - r.U64()%2)
		}
		ub := new(big.Int).Mul(wordsToBig(q), wordsToBig(v))
		switch r.Intn(3) {
		case 0:
			ub.Add(ub, new(big.Int).Sub(wordsToBig(v), big.NewInt(1)))
		case 1:
			ub.Add(ub, wordsToBig(genWords(r, r.Range(1, n-1))))
		}
		return bigToWords(ub), v, "recursive-final-block"
	case 6: // first block of a recursive division leaves a zero top remainder: the block quotient must be corrected
		n = r.Range(100, 180)
		B := n / 2
		sp := B - 1
		v = genWords(r, n)
		v[n-1] = decimal.Word(wb/2 + r.U64()%(wb/2))
		for i := 0; i < sp; i++ {
			v[i] = decimal.Word(wb - 1)
		}
		qt := genWords(r, B)
		if qt[B-1] < 3 {
			qt[B-1] = decimal.Word(3 + r.U64()%(wb-3))
		}
		P := new(big.Int).Mul(wordsToBig(qt), wordsToBig(v[sp:]))
		off := r.Range(B, 2*n)
		P.Mul(P, oracle.Pow10(19*int64(off)))
		if r.Bool() {
			P.Add(P, wordsToBig(genWords(r, r.Range(1, off))))
		}
		return bigToWords(P), v, "recursive-block-fix"
	case 5: // recursive division with block quotient estimates that are too large: u = Q * (v with its low half zeroed), low half of v all nines
		if n < 100 {
			n = r.Range(100, 180)
		}
		v = genWords(r, n)
		v[n-1] = decimal.Word(wb/2 + r.U64()%(wb/2)) // top word >= base/2: the normalisation factor is 1 and the pattern survives
		vh := append([]decimal.Word(nil), v...)
		for i := 0; i < n/2-1; i++ { // the block loop splits v at n/2-1 words
			v[i] = decimal.Word(wb - 1)
			vh[i] = 0
		}
		q := genWords(r, r.Range(1, 2*n))
		u = bigToWords(new(big.Int).Mul(wordsToBig(q), wordsToBig(vh)))
		return u, v, "recursive-overestimate"
	case 0: // constructed add-back: v = [.., 0, b/2], u = [.., 0, 0, k]: the two-word test passes, q̂ is one too large
		if n < 3 {
			n = 3
		}
		v = genWords(r, n)
		v[n-1] = decimal.Word(wb / 2)
		v[n-2] = 0
		if v[n-3] < decimal.Word(wb/2) {
			v[n-3] = decimal.Word(wb - 1 - r.U64()%1000)
		}
		m := n + 1 + r.Intn(4)
		u = genWords(r, m)
		u[m-1] = decimal.Word(1 + r.U64()%(wb/2-1))
		u[m-2] = 0
		u[m-3] = 0
		if r.Bool() && m-4 >= 0 {
			u[m-4] = decimal.Word(r.U64() % 1000)
		}
		return u, v, "add-back-constructed"
	case 1: // exact division u = q*v
		v = genWords(r, n)
		q := genWords(r, natLen(r, tier))
		u = bigToWords(new(big.Int).Mul(wordsToBig(q), wordsToBig(v)))
		return u, v, "exact"
	case 2: // u = q*v + r with r = v-1 or small
		v = genWords(r, n)
		ql := natLen(r, tier)
		if n >= 100 && r.Bool() {
			ql = r.Range(n/2, 2*n)
		}
		q := genWords(r, ql)
		if n >= 100 && r.Chance(30) {
			// a divisor of all nines (its low third may be anything), a quotient of all nines, a remainder just below the
			// divisor (u = v*B^k - small): every correction of a block's remainder adds v back next to the top of its range
			for i := r.Range(0, n/3); i < n; i++ {
				v[i] = decimal.Word(wb - 1)
			}
			q = make([]decimal.Word, r.Range(1, 2*n))
			for i := range q {
				q[i] = decimal.Word(wb - 1)
			}
			ub := new(big.Int).Mul(wordsToBig(q), wordsToBig(v))
			ub.Add(ub, new(big.Int).Sub(wordsToBig(v), big.NewInt(int64(r.Range(1, 1000)))))
			return bigToWords(ub), v, "nines-divisor-nines-quotient-remainder-next-to-divisor"
		}
		ub := new(big.Int).Mul(wordsToBig(q), wordsToBig(v))
		if r.Bool() {
			ub.Add(ub, new(big.Int).Sub(wordsToBig(v), big.NewInt(1)))
		} else {
			ub.Add(ub, big.NewInt(int64(r.Intn(3))))
		}
		return bigToWords(ub), v, "q*v+r"
	case 3: // leading words of u equal those of v: q̂ = base-1 path
		v = genWords(r, n)
		m := n + r.Intn(natLen(r, tier)+1)
		u = genWords(r, m)
		k := r.Range(1, minInt(n, 4))
		copy(u[m-k:], v[n-k:])
		if r.Bool() && n >= 2 {
			v[n-2] = decimal.Word(wb - 1)
		}
		return u, v, "equal-leading-words"
	case 9: // recursive division where a block's quotient is short (a few low words of the block) and its estimate one
		// too large: divisor with an almost empty low half, u = Q*v - small with Q made of random, short and zero blocks.
		// The product of the block quotient and the low half is then shorter than the low half itself.
		if r.Bool() {
			break // (the other half of this slot stays with the random family below)
		}
		n = r.Range(100, 200)
		B := n / 2
		v = genWords(r, n)
		v[n-1] = decimal.Word(wb/2 + r.U64()%(wb/2))
		for i := 0; i < B; i++ {
			v[i] = 0
		}
		for k := r.Range(1, 3); k > 0; k-- {
			v[r.Intn(3)] = decimal.Word(1 + r.U64()%[]uint64{wb - 1, 1000, 3}[r.Intn(3)])
		}
		if r.Chance(30) {
			v[r.Intn(B)] = decimal.Word(1 + r.U64()%(wb-1))
		}
		nb := r.Range(2, 4)
		q := make([]decimal.Word, nb*B+r.Intn(B))
		for b := 0; b*B < len(q); b++ {
			blk := q[b*B : minInt((b+1)*B, len(q))]
			switch r.Intn(3) {
			case 0:
				copy(blk, genWords(r, len(blk)))
			case 1:
				blk[r.Intn(minInt(3, len(blk)))] = decimal.Word(1 + r.U64()%(wb-1))
				if r.Bool() {
					blk[0] = decimal.Word(1 + r.U64()%(wb-1))
				}
			}
		}
		qb := wordsToBig(q)
		if qb.Sign() == 0 {
			qb.SetInt64(7)
		}
		ub := new(big.Int).Mul(qb, wordsToBig(v))
		switch r.Intn(3) {
		case 0:
			ub.Sub(ub, big.NewInt(int64(r.Range(1, 1000))))
		case 1:
			ub.Sub(ub, wordsToBig(genWords(r, r.Range(1, 3))))
		}
		if ub.Sign() <= 0 {
			ub = wordsToBig(v)
		}
		return bigToWords(ub), v, "recursive-short-block-quotient"
	case 4: // single word and two-word divisors
		v = genWords(r, r.Range(1, 2))
		u = genWords(r, natLen(r, tier))
		return u, v, "short-divisor"
	}
	v = genWords(r, n)
	extra := r.Intn(natLen(r, tier) + 1)
	if n >= 100 && r.Bool() {
		extra = r.Range(n/2, 2*n) // several blocks of the recursive division
	}
	u = genWords(r, n+extra)
	return u, v, "random"
}
