package main

import (
	"fmt"
	"math/big"

	"verifharness/hx"
	"verifharness/oracle"
)

// C05 — Sqrt is correctly rounded in the receiver's precision and mode; the
// receiver's precision and mode are preserved.

func init() {
	engines["C05"] = &engine{N: tierN(1200000, 12000000), Setup: selfTest, Case: c05Case}
}

func genSqrt(r *hx.RNG, l hx.Limits) *opCase {
	k := &opCase{op: "Sqrt", mode: r.Mode()}
	maxLen := 160
	if r.Chance(3) {
		maxLen = 700
		if l.MaxDigits > 6000 && r.Chance(30) {
			maxLen = 3000
		}
	}
	expo := func() int64 { // exponent of the coefficient's unit, any parity, sometimes at the ends
		switch r.Intn(10) {
		case 0:
			return oracle.MaxExp - int64(r.Range(0, 400)) - int64(maxLen)
		case 1:
			return oracle.MinExp + int64(r.Range(0, 400))
		default:
			return int64(r.Range(-60, 60))
		}
	}
	shape := r.Intn(100)
	switch {
	case shape < 8: // x a hair below / above a power of ten: the root crosses a decade while it is being corrected
		m := int64(r.Range(1, 60))
		x := new(big.Int).Set(oracle.Pow10(m))
		d := big.NewInt(int64(r.Range(1, 9)))
		if r.Chance(30) {
			d = hx.CoefOf(r.Digits(r.Range(1, int(m))))
		}
		k.class = "just-above-power-of-ten"
		if r.Chance(65) {
			x.Sub(x, d)
			k.class = "just-below-power-of-ten"
		} else {
			x.Add(x, d)
		}
		if x.Sign() <= 0 {
			x.SetInt64(99)
		}
		k.x = oracle.Val{Form: oracle.Finite, Coef: x, Exp: int64(r.Range(-80, 20))}
		k.p = int64(r.Range(1, 30))
		if r.Chance(25) {
			k.p = int64(r.Range(1, int(m)))
		}
	case shape < 30: // perfect squares and their neighbours
		n := r.Range(1, maxLen/2)
		s := hx.CoefOf(r.Digits(n))
		if r.Chance(20) {
			s = hx.CoefOf(r.RoundAimed(maxI(1, n-r.Range(1, 3))))
		}
		x := new(big.Int).Mul(s, s)
		k.class = "perfect-square"
		e := expo()
		switch r.Intn(4) {
		case 0:
			x.Add(x, big.NewInt(1))
			k.class = "square+1"
		case 1:
			if x.Cmp(big.NewInt(1)) > 0 {
				x.Sub(x, big.NewInt(1))
				k.class = "square-1"
			}
		case 2:
			if e%2 != 0 { // odd exponent: not a perfect square any more
				k.class = "square-odd-exponent"
			}
		}
		if k.class == "perfect-square" && e%2 != 0 {
			e--
		}
		k.x = oracle.Val{Form: oracle.Finite, Coef: x, Exp: e}
		ds := int(oracle.Digits(s))
		k.p = int64(maxI(1, ds+[]int{-1, 0, 0, 1, 20, -3, 2}[r.Intn(7)]))
		if r.Chance(4) {
			// a short root at a precision of a thousand digits and more: the iterates are a few digits followed by dozens
			// of zero words (what a squaring routine might like to skip)
			k.p = int64(r.Range(900, 2600))
			k.class += "-long-precision"
		}
	case shape < 55: // roots at or next to a rounding midpoint: x = (m + 1/2)^2 (+- tiny)
		n := r.Range(1, maxLen/2)
		m := hx.CoefOf(r.Digits(n))
		// (2m+1)^2 / 4 = (2m+1)^2 * 25 / 100
		t := new(big.Int).Lsh(m, 1)
		t.Add(t, big.NewInt(1))
		x := new(big.Int).Mul(t, t)
		x.Mul(x, big.NewInt(25))
		e := int64(-2)
		k.class = "root-is-tie"
		if r.Chance(60) {
			// append digits and perturb the last place: root just beside the midpoint
			z := int64(r.Range(1, 30))
			x.Mul(x, oracle.Pow10(2*z))
			e -= 2 * z
			if r.Bool() {
				x.Add(x, big.NewInt(int64(r.Range(1, 9))))
				k.class = "root-just-above-tie"
			} else {
				x.Sub(x, big.NewInt(int64(r.Range(1, 9))))
				k.class = "root-just-below-tie"
			}
		}
		sh := 2 * int64(r.Range(-20, 20))
		k.x = oracle.Val{Form: oracle.Finite, Coef: x, Exp: e + sh}
		k.p = int64(oracle.Digits(m))
	case shape < 70: // root just beside a representable value: x = s^2 +- small at higher resolution
		n := r.Range(1, maxLen/2)
		s := hx.CoefOf(r.Digits(n))
		x := new(big.Int).Mul(s, s)
		z := int64(r.Range(1, 40))
		x.Mul(x, oracle.Pow10(2*z))
		if r.Bool() {
			x.Add(x, big.NewInt(int64(r.Range(1, 99))))
			k.class = "root-just-above-representable"
		} else {
			x.Sub(x, big.NewInt(int64(r.Range(1, 99))))
			k.class = "root-just-below-representable"
		}
		k.x = oracle.Val{Form: oracle.Finite, Coef: x, Exp: -2*z + 2*int64(r.Range(-20, 20))}
		k.p = int64(oracle.Digits(s))
	case shape < 74: // one- and two-word operands made of edge words (B-1, B/2, B/k, 2^63, 2^62, 2^64-B, 2^32 ...), any exponent parity:
		// a shortcut for short operands works on machine words, where the boundaries are binary
		xc := new(big.Int).SetUint64(uint64(genWord(r)))
		if xc.Sign() == 0 || r.Chance(25) {
			xc.SetUint64(r.U64()%(wb-wb/10) + wb/10) // a full 19-digit word
		}
		if r.Chance(30) {
			xc.Mul(xc, new(big.Int).SetUint64(wb))
			xc.Add(xc, new(big.Int).SetUint64(uint64(genWord(r))))
		}
		k.x = oracle.Val{Form: oracle.Finite, Coef: xc, Exp: expo()}
		k.p = int64([]int{1, 5, 9, 10, 19, 20, r.Range(1, 40), r.Range(1, 120)}[r.Intn(8)])
		k.class = "edge-words"
	default:
		n := r.Range(1, maxLen)
		k.x = oracle.Val{Form: oracle.Finite, Coef: hx.CoefOf(r.Digits(n)), Exp: expo()}
		k.p = int64(maxI(1, []int{n, n - 1, n + 1, n / 2, 2 * n, r.Range(1, 40), r.Range(1, maxLen)}[r.Intn(7)]))
		k.class = "random"
	}
	k.attrs(r)
	return k
}

func maxI(a, b int) int {
	if a > b {
		return a
	}
	return b
}

func c05Case(c *hx.Ctx, r *hx.RNG, idx int64) {
	l := hx.LimitsFor(c.Tier)
	var k *opCase
	if idx < 60 { // special operands, exhaustively: {+0,-0,+Inf} x modes x receiver shapes
		vals := []oracle.Val{{Form: oracle.Zero}, {Form: oracle.Zero, Neg: true}, {Form: oracle.Inf}}
		k = &opCase{op: "Sqrt", x: vals[idx%3], mode: int(idx/3) % 6, p: int64(1 + idx), class: "special"}
	} else if idx%10 < 6 {
		// dense: precisions 17..40 - the root spans one to three words and the first refinement of the float64 seed is
		// the one that counts - with x = s^2 x 10^(2z) +- small, s of p+1 digits (the root lies a hair beside a number
		// with one digit more than the receiver keeps: guard digit and sticky information decide) and x of 50..150 digits
		k = &opCase{op: "Sqrt", mode: r.Mode()}
		p := r.Range(17, 40)
		ds := r.Digits(p + 1)
		if r.Bool() {
			ds[0] = '1'
			if r.Bool() {
				ds[1] = byte('0' + r.Intn(5))
			}
		}
		sc := hx.CoefOf(ds)
		z := int64(r.Range(8, 40))
		x := new(big.Int).Mul(sc, sc)
		x.Mul(x, oracle.Pow10(2*z))
		d := big.NewInt(int64(r.Range(1, 99)))
		if r.Chance(30) {
			d.Mul(d, oracle.Pow10(int64(r.Range(0, int(z)))))
		}
		if r.Bool() {
			x.Add(x, d)
		} else {
			x.Sub(x, d)
		}
		k.x = oracle.Val{Form: oracle.Finite, Coef: x, Exp: -2*z + int64(r.Range(-20, 20))}
		k.p = int64(p)
		k.class = "dense-near-guard-digit-square"
		k.attrs(r)
		k.p = int64(p)
	} else {
		k = genSqrt(r, l)
	}
	part := partitions2[0]
	if r.Chance(25) && int64(digitsOf(k.x)) <= k.p+40 {
		part = partitions2[1] // z.Sqrt(z)
		k.applyShape(part)
	}
	shape := shapeName(part, 1)
	if c.Verbose {
		fmt.Println("case:", k.desc(true), "shape:", shape)
	}
	cls := "Sqrt/" + k.class
	got, pi, before, after := k.execShape(part, nil)
	if pi != nil {
		if pi.Class == "mk" || pi.Class == "cost" {
			panic(pi.Val)
		}
		c.Eval(k.key(), true, cls)
		c.Violate("panic", fmt.Sprintf("%s shape %s: %s panic %q at %s", k.desc(true), shape, pi.Class, pi.Text, pi.Stack), "")
		return
	}
	v := k.judge(got)
	// non-trivial: the root is irrational or needs more digits than the receiver has
	c.Eval(k.key()^hx.HashStr(shape), !v.trivial, cls)
	c.Classes["mode/"+oracle.ModeNames[k.mode]]++
	if c.Verbose {
		fmt.Printf("  stored  : %s\n  model #1: %s acc=%d\n  model #2: value=%q\n", got, v.exp.V.Full(), v.exp.Acc, v.m2Value)
	}
	if c.WantSample(cls) {
		c.Sample(cls, fmt.Sprintf("%s shape=%s -> %s", k.desc(false), shape, got))
	}
	switch {
	case v.m1Value && v.m2Value == "":
	case !v.m1Value && v.m2Value != "":
		c.Violate("wrong-value", fmt.Sprintf("%s shape %s: stored %s, correctly rounded root is %s; definition check: %s", k.desc(true), shape, got.V.Full(), v.exp.V.Full(), v.m2Value), "")
	default:
		c.Inconclusive(fmt.Sprintf("oracle self-check: models disagree on %s: stored %s, model #1 wants %s (equal=%v), model #2 says %q", k.desc(true), got.V.Full(), v.exp.V.Full(), v.m1Value, v.m2Value))
	}
	if uint(k.p) != got.Prec {
		c.Violate("precision-changed", fmt.Sprintf("%s shape %s: receiver precision %d became %d", k.desc(true), shape, k.p, got.Prec), "")
	}
	if k.mode != got.Mode {
		c.Violate("mode-changed", fmt.Sprintf("%s shape %s: receiver mode %s became %s (x had mode %s)", k.desc(true), shape, oracle.ModeNames[k.mode], oracle.ModeNames[got.Mode%6], oracle.ModeNames[k.xm]), "")
	}
	if before[1] != nil && !hx.SameState(*before[1], *after[1]) {
		c.Violate("operand-modified", fmt.Sprintf("%s: operand changed from %s to %s", k.desc(true), *before[1], *after[1]), "")
	}
}
