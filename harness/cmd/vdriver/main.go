// vdriver is the single entry point behind /verif/check:
//
//	vdriver <Cxx> quick|thorough     run the check of one property
//	vdriver replay <file>            re-execute one recorded case
//	vdriver manifest                 (re)generate MANIFEST.json from the property table
//
// It rebuilds the worker from /repo's working tree (build tag verif), fans the
// case list out over child processes, merges what they observed, applies
// known_findings.json, writes evidence/<id>.json and prints VIOLATION /
// KNOWN-FINDING lines. Exit status: 0 held on what was observed, 1 violation,
// 2 inconclusive (build failure, watchdog, oracle self-disagreement, floor not met).
package main

import (
	"bytes"
	"encoding/binary"
	"encoding/json"
	"fmt"
	"os"
	"os/exec"
	"path/filepath"
	"runtime"
	"sort"
	"strconv"
	"strings"
	"sync"
	"time"

	"verifharness/hx"
)

var (
	verifDir = "/verif"
	repoDir  = "/repo"
)

func env() []string {
	e := os.Environ()
	e = append(e, "GOFLAGS=-mod=mod", "GOPROXY=off", "GOSUMDB=off", "GOTOOLCHAIN=local", "CGO_ENABLED=1")
	return e
}

func die(code int, f string, a ...interface{}) {
	fmt.Printf(f+"\n", a...)
	os.Exit(code)
}

func main() {
	if d := os.Getenv("VERIF_DIR"); d != "" {
		verifDir = d
	}
	if len(os.Args) < 2 {
		die(3, "usage: check <Cxx> quick|thorough | replay <file> | manifest")
	}
	switch os.Args[1] {
	case "manifest":
		writeManifest()
		return
	case "replay":
		if len(os.Args) < 3 {
			die(3, "usage: check replay <file>")
		}
		replay(os.Args[2])
		return
	}
	prop := os.Args[1]
	cfg, ok := props[prop]
	if !ok {
		die(3, "unknown property %s", prop)
	}
	tier := os.Getenv("VERIF_TIER")
	if len(os.Args) >= 3 {
		tier = os.Args[2]
	}
	if tier != "thorough" {
		tier = "quick"
	}
	seed := int64(1)
	if s := os.Getenv("VERIF_SEED"); s != "" {
		if v, err := strconv.ParseInt(strings.TrimSpace(s), 10, 64); err == nil {
			seed = v
		}
	}
	os.Exit(runCheck(prop, cfg, tier, seed))
}

// ----------------------------------------------------------------- build

type variant struct {
	Name     string
	Tags     string   // build tags
	Race     bool     // -race
	Go       string   // toolchain binary ("" = go)
	Env      []string // extra environment of the children
	Optional bool     // a variant whose toolchain may be missing: skipped with a note
}

func buildWorker(v variant) (string, error) {
	bin := filepath.Join(verifDir, ".build", "vworker-"+v.Name)
	os.MkdirAll(filepath.Dir(bin), 0o755)
	gobin := v.Go
	if gobin == "" {
		gobin = "go"
	}
	args := []string{"build", "-tags", v.Tags, "-o", bin}
	if alt := os.Getenv("VERIF_REPO"); alt != "" {
		// development aid: build against another copy of the library (a scratch worktree holding a seeded change)
		// without touching /repo. Registered commands never set it.
		mf := filepath.Join(verifDir, ".build", "alt.mod")
		mod := "module verifharness\n\ngo 1.23\n\nrequire github.com/db47h/decimal v0.0.0\n\nreplace github.com/db47h/decimal => " + alt + "\n"
		if err := os.WriteFile(mf, []byte(mod), 0o644); err != nil {
			return "", err
		}
		args = append(args, "-modfile="+mf)
	}
	if v.Race {
		args = append(args, "-race")
	}
	args = append(args, "./cmd/vworker")
	cmd := exec.Command(gobin, args...)
	cmd.Dir = filepath.Join(verifDir, "harness")
	cmd.Env = env()
	out, err := cmd.CombinedOutput()
	if err != nil {
		return "", fmt.Errorf("%v\n%s", err, out)
	}
	return bin, nil
}

// ------------------------------------------------------------------- run

type raceReport struct {
	sig  string
	text string
}

// parseRaces extracts the race detector's report blocks from a worker log, with a
// signature made of the outermost library frames of the two conflicting accesses.
func parseRaces(log string) []raceReport {
	var out []raceReport
	for _, blk := range strings.Split(log, "==================") {
		if !strings.Contains(blk, "WARNING: DATA RACE") {
			continue
		}
		var sig []string
		lines := strings.Split(blk, "\n")
		for i, l := range lines {
			t := strings.TrimSpace(l)
			if strings.HasPrefix(t, "Write at") || strings.HasPrefix(t, "Read at") || strings.HasPrefix(t, "Previous write at") || strings.HasPrefix(t, "Previous read at") {
				// the first frame below names the accessing function
				if i+1 < len(lines) {
					f := strings.TrimSpace(lines[i+1])
					if j := strings.IndexByte(f, '('); j > 0 {
						f = f[:j]
					}
					sig = append(sig, f)
				}
			}
		}
		sort.Strings(sig)
		out = append(out, raceReport{sig: strings.Join(sig, " <-> "), text: strings.TrimSpace(blk)})
	}
	return out
}

type shardResult struct {
	races   []raceReport
	sum     *hx.Summary
	hashes  []uint64
	crashed bool
	timeout bool
	last    string
	log     string
	variant string
	early   []hx.Violation // violations journalled by a child that did not finish
}

func runShards(prop string, tier string, seed int64, v variant, bin string, nshards int, timeout time.Duration, memKB int64) []shardResult {
	tmp := filepath.Join(verifDir, ".build", "run", fmt.Sprintf("%s-%s-%s", prop, tier, v.Name))
	os.RemoveAll(tmp)
	os.MkdirAll(tmp, 0o755)
	res := make([]shardResult, nshards)
	var wg sync.WaitGroup
	sem := make(chan struct{}, runtime.NumCPU())
	for i := 0; i < nshards; i++ {
		wg.Add(1)
		go func(i int) {
			defer wg.Done()
			sem <- struct{}{}
			defer func() { <-sem }()
			base := filepath.Join(tmp, fmt.Sprintf("s%02d", i))
			logf := base + ".log"
			sh := fmt.Sprintf("ulimit -v %d; exec timeout -s QUIT %d %s -prop %s -tier %s -seed %d -shard %d -nshards %d -out %s >%s 2>&1",
				memKB, int(timeout.Seconds()), bin, prop, tier, seed, i, nshards, base, logf)
			cmd := exec.Command("bash", "-c", sh)
			cmd.Env = append(env(), v.Env...)
			err := cmd.Run()
			r := shardResult{variant: v.Name}
			if b, e := os.ReadFile(base + ".json"); e == nil {
				var s hx.Summary
				if json.Unmarshal(b, &s) == nil && s.Done {
					r.sum = &s
				}
			}
			if r.sum == nil {
				r.crashed = true
				// what the child had already reported when it died
				if b, e := os.ReadFile(base + ".viol"); e == nil {
					for _, ln := range bytes.Split(b, []byte{'\n'}) {
						var v hx.Violation
						if len(ln) > 0 && json.Unmarshal(ln, &v) == nil {
							r.early = append(r.early, v)
						}
					}
				}
				if ee, ok := err.(*exec.ExitError); ok && (ee.ExitCode() == 124 || ee.ExitCode() == 137) {
					r.timeout = true
				}
				if b, e := os.ReadFile(base + ".last"); e == nil {
					if j := bytes.IndexByte(b, 0); j >= 0 {
						b = b[:j]
					}
					r.last = string(b)
				}
				if b, e := os.ReadFile(logf); e == nil {
					if len(b) > 6000 {
						b = append(b[:3000], b[len(b)-3000:]...)
					}
					r.log = string(b)
					if strings.Contains(r.log, "SIGQUIT") {
						r.timeout = true
					}
				}
			}
			if v.Race {
				if b, e := os.ReadFile(logf); e == nil {
					r.races = parseRaces(string(b))
				}
			}
			if b, e := os.ReadFile(base + ".hashes"); e == nil && r.sum != nil {
				r.hashes = make([]uint64, len(b)/8)
				for j := range r.hashes {
					r.hashes[j] = binary.LittleEndian.Uint64(b[8*j:])
				}
			}
			res[i] = r
		}(i)
	}
	wg.Wait()
	os.RemoveAll(tmp)
	return res
}

// --------------------------------------------------------- known findings

type finding struct {
	Property  string `json:"property"`
	ID        string `json:"id"`
	Status    string `json:"status"` // open | fixed
	Commit    string `json:"commit,omitempty"`
	Predicate string `json:"predicate,omitempty"`
	Witness   string `json:"witness,omitempty"`
	Text      string `json:"text"`
}

func loadFindings() []finding {
	var f struct {
		Findings []finding `json:"findings"`
	}
	b, err := os.ReadFile(filepath.Join(verifDir, "known_findings.json"))
	if err != nil {
		return nil
	}
	if err := json.Unmarshal(b, &f); err != nil {
		die(2, "INCONCLUSIVE known_findings.json does not parse: %v", err)
	}
	return f.Findings
}

// ---------------------------------------------------------------- check

func runCheck(prop string, cfg *propCfg, tier string, seed int64) int {
	start := time.Now()
	variants := cfg.Variants
	if len(variants) == 0 {
		variants = []variant{{Name: "verif", Tags: "verif"}}
	}
	if tier == "thorough" && len(cfg.ThoroughVariants) > 0 {
		variants = append(append([]variant{}, variants...), cfg.ThoroughVariants...)
	}
	nshards := cfg.Shards
	if nshards == 0 {
		nshards = runtime.NumCPU()
	}
	timeout := 8 * time.Minute
	if tier == "thorough" {
		timeout = 3 * time.Hour
	}
	if cfg.Timeout != 0 && tier != "thorough" {
		timeout = cfg.Timeout
	}
	memKB := int64(8 << 20) // 8 GB of address space per child
	if cfg.MemKB != 0 {
		memKB = cfg.MemKB
	}

	var all []shardResult
	var inconcl []string
	for _, v := range variants {
		bin, err := buildWorker(v)
		if err != nil {
			if v.Optional {
				inconclNote := fmt.Sprintf("optional variant %s not built: %v", v.Name, firstLine(err.Error()))
				fmt.Println("NOTE", inconclNote)
				continue
			}
			fmt.Printf("INCONCLUSIVE property=%s build of variant %s failed:\n%s\n", prop, v.Name, err)
			return 2
		}
		ns := nshards
		if v.Race && cfg.RaceShards != 0 {
			ns = cfg.RaceShards
		}
		all = append(all, runShards(prop, tier, seed, v, bin, ns, timeout, memKB)...)
	}

	// merge
	m := hx.Summary{Prop: prop, Tier: tier, Seed: seed, Classes: map[string]int64{}, Counters: map[string]int64{}, KnownHits: map[string]int64{}, KnownSample: map[string]string{}}
	var hashes []uint64
	var viol []hx.Violation
	raceSeen := map[string]int{}
	nraces := 0
	for _, r := range all {
		for _, rr := range r.races {
			nraces++
			raceSeen[rr.sig]++
			if raceSeen[rr.sig] == 1 {
				viol = append(viol, hx.Violation{Prop: prop, Idx: int64(len(raceSeen)), Kind: "data-race", Detail: "race detector report (" + rr.sig + "): " + trunc(rr.text, 2500)})
				m.NViol++
			}
		}
	}
	for _, v := range variants {
		if v.Race {
			m.Counters["race_detector_report_blocks"] = int64(nraces)
			m.Counters["race_detector_distinct_signatures"] = int64(len(raceSeen))
		}
	}
	for _, r := range all {
		if r.sum == nil {
			viol = append(viol, r.early...)
			m.NViol += int64(len(r.early))
			what := fmt.Sprintf("variant %s: child died; last case: %q; log tail: %s", r.variant, r.last, tail(r.log, 1500))
			if r.timeout {
				inconcl = append(inconcl, "watchdog fired: "+what)
				continue
			}
			// a crash of the library under test on a logged input is a violation of the running property
			idx := int64(-1)
			if i := strings.Index(r.last, "case="); i >= 0 {
				fmt.Sscanf(r.last[i:], "case=%d", &idx)
			}
			if idx < 0 || strings.Contains(r.log, "cannot allocate memory") || strings.Contains(r.log, "out of memory") {
				inconcl = append(inconcl, "child died outside a case or out of memory: "+what)
				continue
			}
			viol = append(viol, hx.Violation{Prop: prop, Idx: idx, Kind: "crash", Detail: what})
			m.NViol++
			continue
		}
		s := r.sum
		m.Evals += s.Evals
		m.Nontrivial += s.Nontrivial
		m.Skipped += s.Skipped
		m.NViol += s.NViol
		for k, v := range s.Classes {
			m.Classes[k] += v
		}
		for k, v := range s.Counters {
			m.Counters[k] += v
		}
		for k, v := range s.KnownHits {
			m.KnownHits[k] += v
		}
		for k, v := range s.KnownSample {
			if _, ok := m.KnownSample[k]; !ok {
				m.KnownSample[k] = v
			}
		}
		if len(m.Samples) < 40 {
			for _, x := range s.Samples {
				if len(m.Samples) < 40 {
					m.Samples = append(m.Samples, x)
				}
			}
		}
		m.Notes = append(m.Notes, s.Notes...)
		viol = append(viol, s.Violations...)
		for _, x := range s.Inconcl {
			inconcl = append(inconcl, x)
		}
		hashes = append(hashes, r.hashes...)
	}
	// transcript digests must agree across build variants
	type dv struct{ variant, val string }
	dig := map[string][]dv{}
	for _, r := range all {
		if r.sum == nil {
			continue
		}
		for k, v := range r.sum.Digests {
			dig[k] = append(dig[k], dv{r.variant, v})
		}
	}
	dkeys := make([]string, 0, len(dig))
	for k := range dig {
		dkeys = append(dkeys, k)
	}
	sort.Strings(dkeys)
	ndig := 0
	reported := map[string]bool{}
	for _, k := range dkeys {
		vs := dig[k]
		ndig += len(vs)
		if len(variants) > 1 && len(vs) < 2 {
			inconcl = append(inconcl, fmt.Sprintf("transcript chunk %s was produced by %d variant(s) only", k, len(vs)))
		}
		for _, x := range vs[1:] {
			shard := k[:strings.IndexByte(k, '/')]
			if x.val != vs[0].val && !reported[shard] {
				reported[shard] = true // the first differing chunk of a shard localises the divergence; later chunks differ as a consequence
				var sh, ch int
				fmt.Sscanf(k, "shard%d/chunk%d", &sh, &ch)
				viol = append(viol, hx.Violation{Prop: prop, Idx: -int64(sh*100000+ch) - 1, Kind: "transcript-mismatch", Detail: fmt.Sprintf("public-API transcript %s differs between build variants %s (%s) and %s (%s)", k, vs[0].variant, vs[0].val, x.variant, x.val)})
				m.NViol++
			}
		}
	}
	if ndig > 0 {
		m.Counters["transcript_chunk_digests_compared"] = int64(ndig)
	}
	sort.Slice(hashes, func(i, j int) bool { return hashes[i] < hashes[j] })
	distinct := int64(0)
	for i := range hashes {
		if i == 0 || hashes[i] != hashes[i-1] {
			distinct++
		}
	}

	// floors: a monitor that did not observe the events it exists for is inconclusive
	for _, f := range cfg.Floors {
		got := int64(0)
		for k, v := range m.Classes {
			if strings.HasPrefix(k, f.Prefix) {
				got += v
			}
		}
		for k, v := range m.Counters {
			if strings.HasPrefix(k, f.Prefix) {
				got += v
			}
		}
		if got < f.Min {
			inconcl = append(inconcl, fmt.Sprintf("floor not met: %q observed %d times, need >= %d", f.Prefix, got, f.Min))
		}
	}
	if m.Evals == 0 {
		inconcl = append(inconcl, "no case was evaluated")
	}

	// known findings
	fs := loadFindings()
	open := map[string]finding{}
	for _, f := range fs {
		if f.Property == prop && f.Status == "open" && f.Predicate != "" {
			open[f.Predicate] = f
		}
	}
	unlisted := m.NViol
	var knownLines []string
	var knownList []map[string]interface{}
	preds := make([]string, 0, len(m.KnownHits))
	for p := range m.KnownHits {
		preds = append(preds, p)
	}
	sort.Strings(preds)
	for _, p := range preds {
		if f, ok := open[p]; ok {
			unlisted -= m.KnownHits[p]
			knownLines = append(knownLines, fmt.Sprintf("KNOWN-FINDING: property=%s %s: %s [%d case(s) this run, e.g. %s]", prop, f.ID, f.Text, m.KnownHits[p], trunc(m.KnownSample[p], 300)))
			knownList = append(knownList, map[string]interface{}{"id": f.ID, "predicate": p, "cases": m.KnownHits[p], "sample": m.KnownSample[p]})
		}
	}

	// report violations that no open finding lists
	os.MkdirAll(filepath.Join(verifDir, "replays"), 0o755)
	var vlines []string
	nprinted := 0
	for _, v := range viol {
		if _, ok := open[v.KF]; ok && v.KF != "" {
			continue
		}
		if nprinted >= 8 {
			break
		}
		nprinted++
		path := filepath.Join(verifDir, "replays", fmt.Sprintf("%s-%s-seed%d-case%d.json", prop, tier, seed, v.Idx))
		rec := map[string]interface{}{
			"property": prop, "tier": tier, "seed": seed, "case": v.Idx, "kind": v.Kind, "detail": v.Detail,
			"replay_cmd": fmt.Sprintf("./check replay %s", path),
		}
		b, _ := json.MarshalIndent(rec, "", " ")
		os.WriteFile(path, b, 0o644)
		vlines = append(vlines, fmt.Sprintf("VIOLATION property=%s replay=%s", prop, path))
		fmt.Printf("  %s case %d: %s\n", v.Kind, v.Idx, trunc(v.Detail, 420))
	}
	if unlisted > 0 && len(vlines) == 0 {
		// all recorded ones were known, but the count says more: cannot happen unless records were capped
		vlines = append(vlines, fmt.Sprintf("VIOLATION property=%s replay=%s", prop, "(violation records capped; rerun with another seed)"))
	}

	wall := time.Since(start).Seconds()
	writeEvidence(prop, cfg, tier, seed, &m, distinct, unlisted, knownList, inconcl, wall, variants)

	for _, l := range knownLines {
		fmt.Println(l)
	}
	for _, l := range vlines {
		fmt.Println(l)
	}
	fmt.Printf("%s %s seed=%d: %d evaluations, %d distinct non-trivial, %d violations (%d unlisted), %d skipped, %.1fs\n",
		prop, tier, seed, m.Evals, distinct, m.NViol, unlisted, m.Skipped, wall)
	if unlisted > 0 {
		return 1
	}
	if len(inconcl) > 0 {
		for i, x := range inconcl {
			if i < 10 {
				fmt.Printf("INCONCLUSIVE property=%s %s\n", prop, trunc(x, 2000))
			}
		}
		return 2
	}
	return 0
}

func firstLine(s string) string {
	if i := strings.IndexByte(s, '\n'); i >= 0 {
		return s[:i]
	}
	return s
}

func tail(s string, n int) string {
	if len(s) > n {
		return s[len(s)-n:]
	}
	return s
}

func trunc(s string, n int) string {
	if len(s) > n {
		return s[:n] + "..."
	}
	return s
}

func writeEvidence(prop string, cfg *propCfg, tier string, seed int64, m *hx.Summary, distinct, unlisted int64, known []map[string]interface{}, inconcl []string, wall float64, variants []variant) {
	samples := make([]interface{}, 0, len(m.Samples))
	for _, s := range m.Samples {
		samples = append(samples, s)
	}
	if len(samples) == 0 {
		samples = append(samples, "no case completed")
	}
	vn := []string{}
	for _, v := range variants {
		vn = append(vn, v.Name+"("+v.Tags+")")
	}
	cov := map[string]interface{}{
		"evaluations":         m.Evals,
		"distinct_nontrivial": distinct,
		"nontrivial_total":    m.Nontrivial,
		"rule":                cfg.Rule,
		"samples":             samples,
		"classes":             m.Classes,
		"counters":            m.Counters,
		"skipped_over_cost":   m.Skipped,
		"known_findings_hit":  known,
		"inconclusive":        inconcl,
		"build_variants":      vn,
		"notes":               m.Notes,
		"exhaustive":          false,
	}
	ev := map[string]interface{}{
		"property_id": prop,
		"tier":        tier,
		"seed":        seed,
		"level":       "exploration",
		"coverage":    cov,
		"assumptions": cfg.Assumptions,
		"wall_s":      wall,
		"violations":  unlisted,
	}
	b, _ := json.MarshalIndent(ev, "", " ")
	evDir := filepath.Join(verifDir, "evidence")
	if os.Getenv("VERIF_REPO") != "" {
		// development aid (a run against a scratch copy of the library): the evidence files under /verif/evidence
		// describe runs on /repo only
		evDir = filepath.Join(verifDir, ".build", "evidence-alt")
	}
	os.MkdirAll(evDir, 0o755)
	os.WriteFile(filepath.Join(evDir, prop+".json"), b, 0o644)
}

// --------------------------------------------------------------- replay

func replay(path string) {
	b, err := os.ReadFile(path)
	if err != nil {
		die(3, "cannot read %s: %v", path, err)
	}
	var rec struct {
		Property string `json:"property"`
		Tier     string `json:"tier"`
		Seed     int64  `json:"seed"`
		Case     int64  `json:"case"`
	}
	if err := json.Unmarshal(b, &rec); err != nil {
		die(3, "bad replay file: %v", err)
	}
	cfg := props[rec.Property]
	if cfg == nil {
		die(3, "unknown property %q", rec.Property)
	}
	v := variant{Name: "verif", Tags: "verif"}
	if len(cfg.Variants) > 0 {
		v = cfg.Variants[0]
	}
	bin, err := buildWorker(v)
	if err != nil {
		die(2, "INCONCLUSIVE build failed:\n%v", err)
	}
	if rec.Case < 0 {
		replayTranscript(rec.Property, rec.Tier, rec.Seed, int(-(rec.Case+1))/100000, int(-(rec.Case+1))%100000, cfg)
		return
	}
	cmd := exec.Command(bin, "-prop", rec.Property, "-tier", rec.Tier, "-seed", fmt.Sprint(rec.Seed), "-replay", fmt.Sprint(rec.Case))
	cmd.Env = append(env(), v.Env...)
	cmd.Stdout, cmd.Stderr = os.Stdout, os.Stderr
	if err := cmd.Run(); err != nil {
		if ee, ok := err.(*exec.ExitError); ok {
			os.Exit(ee.ExitCode())
		}
		os.Exit(2)
	}
}

// replayTranscript re-runs one shard's transcript under every build variant and prints the first differing step.
func replayTranscript(prop, tier string, seed int64, shard, chunk int, cfg *propCfg) {
	nshards := cfg.Shards
	if nshards == 0 {
		nshards = runtime.NumCPU()
	}
	var outs [][]string
	var names []string
	for _, v := range cfg.Variants {
		bin, err := buildWorker(v)
		if err != nil {
			die(2, "INCONCLUSIVE build of %s failed:\n%v", v.Name, err)
		}
		cmd := exec.Command(bin, "-prop", prop, "-tier", tier, "-seed", fmt.Sprint(seed), "-shard", fmt.Sprint(shard), "-nshards", fmt.Sprint(nshards), "-dumpchunk", fmt.Sprint(chunk), "-transcriptonly")
		cmd.Env = append(env(), v.Env...)
		out, _ := cmd.Output()
		var lines []string
		for _, l := range strings.Split(string(out), "\n") {
			if strings.HasPrefix(l, "T ") {
				lines = append(lines, l)
			}
		}
		outs = append(outs, lines)
		names = append(names, v.Name)
	}
	for i := 1; i < len(outs); i++ {
		for j := 0; j < len(outs[0]) && j < len(outs[i]); j++ {
			if outs[0][j] != outs[i][j] {
				fmt.Printf("first differing step between %s and %s:\n  %s: %s\n  %s: %s\n", names[0], names[i], names[0], trunc(outs[0][j], 1500), names[i], trunc(outs[i][j], 1500))
				fmt.Println("REPLAY: 1 violation(s) reproduced")
				os.Exit(1)
			}
		}
	}
	fmt.Println("REPLAY: transcripts agree on this tree")
}
