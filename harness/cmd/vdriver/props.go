package main

import (
	"encoding/json"
	"fmt"
	"os"
	"path/filepath"
	"sort"
	"time"
)

type floor struct {
	Prefix string // class or counter name prefix
	Min    int64
}

type propCfg struct {
	Rule             string
	Assumptions      []string
	Floors           []floor
	Variants         []variant
	ThoroughVariants []variant
	Shards           int
	RaceShards       int
	Timeout          time.Duration
	MemKB            int64
	LevelText        string
	LevelNote        string
	Technique        string
	DesignRef        string
}

const commonNote = "Trusted base: Go toolchain and math/big (oracle arithmetic), strconv/fmt where used as differential references; the harness' own oracle is self-tested against them at the start of every worker. A pass means: held on the executions counted in the evidence file, nothing more."

var props = map[string]*propCfg{
	"C01": {
		Rule:        "Cases are a pure function of (VERIF_SEED, case index): operation in {Add,Sub,Mul,Quo,Set,SetPrec,Neg,Abs} x operand shapes (exponent gaps 0/1/18/19/20/p/p+-1/sticky-only, sums and products and exact quotients constructed to land on ties / just beside ties / all-nines carries, massive cancellation, equal and negated operands, both ends of the int32 exponent range, zero operands, near-equal leading words for quotient-digit correction, squares through one variable) x precision (1..40 dense, word boundaries, digit count of the exact result +-3, MaxPrec) x six modes. Every case is executed on a fresh receiver and judged by two independent models (round-once in big.Int; definition of correct rounding by magnitude comparisons). A case is non-trivial when the exact result is not representable at the receiver's precision or leaves the exponent range (rounding or saturation actually happened); distinct = distinct 64-bit hashes of (op, operands, precision, mode) among those.",
		Assumptions: []string{"operand exponent gaps are capped (2 000 digits quick, 200 000 thorough) because the library materialises the shift", "operands are built with SetBitsExp+Neg and verified by read-back before use", "receiver precision >= 1 (precision 0 belongs to C09)"},
		Floors:      []floor{{"Add/", 1000}, {"Sub/", 1000}, {"Mul/", 1000}, {"Quo/", 1000}, {"Set/", 200}, {"SetPrec/", 200}, {"Neg/", 200}, {"Abs/", 200}, {"Quo/exact-quotient", 500}, {"Add/sum-aimed", 300}, {"oracle_selftest_cases", 1000}},
		LevelText:   "Runtime monitoring: every generated call of the real library is compared with an exact big-integer reference by two independent oracles; assurance is 'held on the N executions listed in the evidence', with generators aimed at the rounding structure (ties, carries, word boundaries, range ends) that uniform tests do not reach.",
		Technique:   "runtime oracle monitoring: differential against an exact big.Int reference model + definition-of-rounding checker over generated hostile inputs",
		DesignRef:   "DESIGN.md §4 C01",
	},
}

func writeManifest() {
	type check struct {
		PropertyID string                 `json:"property_id"`
		Quick      string                 `json:"quick_cmd"`
		Thorough   string                 `json:"thorough_cmd"`
		Evidence   string                 `json:"evidence_file"`
		Replay     string                 `json:"replay_cmd_template"`
		Engine     string                 `json:"engine"`
		Level      map[string]interface{} `json:"level_claimed"`
		LevelNote  string                 `json:"level_note"`
		Technique  string                 `json:"technique"`
	}
	var ids []string
	for id := range props {
		ids = append(ids, id)
	}
	sort.Strings(ids)
	var checks []check
	for _, id := range ids {
		p := props[id]
		note := p.LevelNote
		if note == "" {
			note = commonNote
		}
		checks = append(checks, check{
			PropertyID: id,
			Quick:      "./check " + id + " quick",
			Thorough:   "./check " + id + " thorough",
			Evidence:   "/verif/evidence/" + id + ".json",
			Replay:     "./check replay {path}",
			Engine:     "vworker",
			Level:      map[string]interface{}{"category": "exploration", "text": p.LevelText, "design_ref": p.DesignRef},
			LevelNote:  note,
			Technique:  p.Technique,
		})
	}
	// hooks and not_applicable are kept in a hand-written side file so that this generator stays a pure function of the table
	var side struct {
		Hooks         map[string]interface{}   `json:"hooks"`
		NotApplicable []map[string]interface{} `json:"not_applicable"`
		Notes         string                   `json:"notes"`
	}
	b, err := os.ReadFile(filepath.Join(verifDir, "manifest_side.json"))
	if err != nil {
		die(3, "manifest_side.json: %v", err)
	}
	if err := json.Unmarshal(b, &side); err != nil {
		die(3, "manifest_side.json: %v", err)
	}
	na := []map[string]interface{}{}
	for _, x := range side.NotApplicable {
		if id, _ := x["property_id"].(string); props[id] == nil {
			na = append(na, x)
		}
	}
	m := map[string]interface{}{
		"version":   1,
		"setup_cmd": "./setup.sh",
		"hooks":     side.Hooks,
		"engines": []map[string]interface{}{{
			"name": "vworker", "path": "harness/cmd/vworker",
			"serves_properties": ids,
			"kind_free_text":    "Go worker built from /repo's working tree with -tags verif; one child process per shard, cases are a pure function of (seed, property, index); driver harness/cmd/vdriver merges, applies known_findings.json, writes evidence",
		}},
		"checks":         checks,
		"not_applicable": na,
		"notes":          side.Notes,
	}
	out, _ := json.MarshalIndent(m, "", " ")
	if err := os.WriteFile(filepath.Join(verifDir, "MANIFEST.json"), append(out, '\n'), 0o644); err != nil {
		die(3, "%v", err)
	}
	fmt.Printf("MANIFEST.json written: %d checks, %d not applicable\n", len(checks), len(na))
}
