package main

import (
	"bytes"
	"encoding/json"
	"fmt"
	"os"
	"path/filepath"
	"sort"
	"time"
)

type floor struct {
	Prefix string // class or counter name prefix
	Min    int64
}

type propCfg struct {
	Rule             string
	Assumptions      []string
	Floors           []floor
	Variants         []variant
	ThoroughVariants []variant
	Shards           int
	RaceShards       int
	Timeout          time.Duration
	MemKB            int64
	LevelText        string
	LevelNote        string
	Technique        string
	DesignRef        string
}

const commonNote = "Trusted base: Go toolchain and math/big (oracle arithmetic), strconv/fmt where used as differential references; the harness' own oracle is self-tested against them at the start of every worker. A pass means: held on the executions counted in the evidence file, nothing more."

var props = map[string]*propCfg{
	"C01": {
		Rule:        "Cases are a pure function of (VERIF_SEED, case index): operation in {Add,Sub,Mul,Quo,Set,SetPrec,Neg,Abs} x operand shapes (exponent gaps 0/1/18/19/20/p/p+-1/sticky-only, sums and products and exact quotients constructed to land on ties / just beside ties / all-nines carries, massive cancellation, equal and negated operands, both ends of the int32 exponent range, zero operands, near-equal leading words for quotient-digit correction, squares through one variable) x precision (1..40 dense, word boundaries, digit count of the exact result +-3, MaxPrec) x six modes. Every case is executed on a fresh receiver and judged by two independent models (round-once in big.Int; definition of correct rounding by magnitude comparisons). A case is non-trivial when the exact result is not representable at the receiver's precision or leaves the exponent range (rounding or saturation actually happened); distinct = distinct 64-bit hashes of (op, operands, precision, mode) among those. Added in later rounds: operand and receiver precisions from the top of the uint32 range (4 in 100 operands; receivers of Add/Sub/Mul/Set/Neg/Abs), underflow by cancellation at the bottom of the range, divisors 10^k/1/2/4/5/8/25 with dividends at the range ends, 500..1400-digit factors at the range ends, B/k and binary-boundary edge words, and two directed cases per run with operands 2^31+ digits apart (one effective addition, one subtraction; both models judge the surrogate 'large operand plus a non-zero value far below the rounding position'). Round 7: products (and same-variable squares) that lie right next to a rounding-aimed value T - x*y = T x 10^s -+ less than x, y or x = y obtained by division or square root, operands of 20..1 500 digits, precisions to 1 500 - so that the side of T is decided by the lowest words of both operands; 3 in 100 finite operands everywhere are held in a mantissa longer than their precision needs (zero low words, as a decoded gob payload leaves them).",
		Assumptions: []string{"operand exponent gaps are capped (2 000 digits quick, 200 000 thorough) because the library materialises the shift", "operands are built with SetBitsExp+Neg and verified by read-back before use", "receiver precision >= 1 (precision 0 belongs to C09)"},
		Floors:      []floor{{"Add/", 1000}, {"Sub/", 1000}, {"Mul/", 1000}, {"Quo/", 1000}, {"Set/", 200}, {"SetPrec/", 200}, {"Neg/", 200}, {"Abs/", 200}, {"Quo/exact-quotient", 500}, {"Add/sum-aimed", 300}, {"oracle_selftest_cases", 1000}},
		LevelText:   "Runtime monitoring: every generated call of the real library is compared with an exact big-integer reference by two independent oracles; assurance is 'held on the N executions listed in the evidence', with generators aimed at the rounding structure (ties, carries, word boundaries, range ends) that uniform tests do not reach.",
		Technique:   "runtime oracle monitoring: differential against an exact big.Int reference model + definition-of-rounding checker over generated hostile inputs",
		DesignRef:   "DESIGN.md §4 C01",
	},
	"C03": {
		Rule:        "Cases: FMA triples built so that u lies within +-(p+3) digits of the product's leading digit, far below / far above it (sticky only), u = -(x*y rounded to k digits) for random k (cancellation leaving 0..all digits, incl. exactly zero sums), sums constructed to land on ties and all-nines carries, zero products and zero addends of both signs, infinities, products at both ends of the exponent range; x 15 sharing patterns of {z,x,y,u} (45% distinct variables) x precision x six modes. Judged by both oracle models on the exact x*y+u (value and accuracy), plus: receiver attributes unchanged, operands not sharing the receiver unmodified. Non-trivial = single rounding differs from Mul-then-Add by the oracle (value or accuracy); distinct = hashes of (operands, precision, mode, sharing pattern). Added in later rounds: underflow by cancellation, tail-cancel addends, operand precisions from the top of the range; the known finding D15 is matched by class and outcome (fmaKnownOutcome). Round 7: addends that are a power of ten (or one digit) of the opposite sign p-2..p+3 places above the product's leading digit (the subtraction borrows out of the leading digit); zero addends of either sign under products at and far beyond both ends of the exponent range.",
		Assumptions: []string{"gap between the exact product and u capped like C01's addend gap", "operands sharing the receiver are given values that fit the receiver's precision (otherwise they could not be that variable)", "cases whose exact product x*y leaves the exponent range are known finding D15 (predicate fma_product_exponent_out_of_range) and reported as such"},
		Floors:      []floor{{"FMA/u-near", 5000}, {"FMA/cancel", 5000}, {"FMA/cancel-to-zero", 1000}, {"FMA/zeros", 1000}, {"FMA/infinities", 1000}, {"FMA/sum-aimed", 2000}, {"shape/z=u", 500}, {"shape/z=x=y=u", 500}, {"fma_differs_from_mul_then_add", 2000}},
		LevelText:   "Runtime monitoring of FMA against the exact x*y+u in big integers under all 15 sharing patterns; evidence counts how many cases the single rounding actually mattered.",
		Technique:   "runtime oracle monitoring: exact big.Int reference + definition checker, metamorphic aliasing shapes",
		DesignRef:   "DESIGN.md §4 C03",
	},
	"C05": {
		Rule:        "Cases: perfect squares s^2 (s of 1..80 digits, some to 1 500) and s^2+-1, at receiver precision digits(s)+{-3,-1,0,1,2,20}; roots that are exactly a rounding midpoint ((m+1/2)^2) or lie a few units of a far lower place beside a midpoint or beside a representable value; x a few units of its last place below / above a power of ten (the root crosses a decade) at small precisions; odd and even exponents (incl. negative odd), exponents at both ends of the int32 range; random x with more / as many / fewer digits than the receiver; Sqrt(+0), Sqrt(-0), Sqrt(+Inf) for every mode; 25% with the receiver being the operand. Oracle: integer square root in big.Int + sticky, rounded once (model #1) and the definition check s^2 vs x on candidate neighbours (model #2). After the call the receiver's precision and mode must be what they were and a distinct operand must be bit-identical. Non-trivial = the exact root is not representable at the receiver's precision; distinct = hashes of (x, precision, mode, sharing). Added in later rounds: short perfect squares at 900..2600 digits, operand precisions from the top of the range. Round 7: one- and two-word operands made of edge words (B-1, B/2, B/k, 2^63, 2^62, 2^64-B, 2^32) at any exponent parity. Round 8: six cases in ten are a dense class - precisions 17..40, x = s^2 x 10^(2z) +- small with s of p+1 digits (the root lies a hair beside a number with one digit more than the receiver keeps), x of 50..150 digits.",
		Assumptions: []string{"operand lengths are capped at 700 digits quick / 3 000 thorough (Newton iteration cost)", "Acc() after Sqrt is not part of the statement and is not judged"},
		Floors:      []floor{{"Sqrt/perfect-square", 3000}, {"Sqrt/root-is-tie", 3000}, {"Sqrt/root-just-above-tie", 2000}, {"Sqrt/root-just-below-tie", 2000}, {"Sqrt/root-just-above-representable", 2000}, {"Sqrt/root-just-below-representable", 2000}, {"Sqrt/special", 50}, {"Sqrt/just-below-power-of-ten", 3000}, {"mode/ToNegativeInf", 5000}, {"mode/AwayFromZero", 5000}},
		LevelText:   "Runtime monitoring of Sqrt against the integer square root with cases constructed at the rounding boundaries (exact ties, perfect squares, neighbours one unit of a far lower place away), where an approximate Newton result is wrong.",
		Technique:   "runtime oracle monitoring: big.Int integer square root reference + definition checker, boundary-constructed inputs, attribute snapshots",
		DesignRef:   "DESIGN.md §4 C05",
	},
	"C04": {
		Rule:        "Part 1 (exhaustive): the class table {-Inf,-fin,-0,+0,+fin,+Inf}^k is enumerated completely: 36 cells x {Add,Sub,Mul,Quo} x 6 modes x 4 magnitude variants (1-word, 3-word, 120-word finite operands; equal magnitudes so that exact zero sums occur) x {distinct variables, z=x}; 216 FMA cells x 6 modes x 4 variants over the 15 sharing patterns; 6 Sqrt cells x 6 modes x 3 sizes x {distinct, z=x}; all of it x 3 receiver states (fresh; holding the inexact result of an earlier division, i.e. a stale Below accuracy; holding a negative zero that came out of inexact arithmetic) = 27 864 cells. Expected class and sign come from the float64 hardware (x+y, x-y, x*y, x/y, math.FMA, math.Sqrt on class representatives; NaN <=> must panic with ErrNaN) with the -0-under-ToNegativeInf rule applied on top, cross-checked against the modelled rules (disagreement = inconclusive); after an ErrNaN panic the receiver must pass the representation-invariant walker. Part 2 (panic hunt): 38 groups of public operations (arithmetic incl. 100..220-word divisors with adversarial words and exact recursive divisions, Karatsuba-sized products and squares, Sqrt, all setters incl. int64-extreme exponents, raw SetBitsExp incl. precision-0 receivers, all getters and conversions, every Text/fmt format, Parse/SetString/ParseDecimal/UnmarshalText/Scan/JSON on literals and token soup in every legal base, Gob of valid values) called on valid arguments under recover(): any panic value that is not ErrNaN, an ErrNaN on a valid call, or a missing ErrNaN on an invalid one is a violation. All table cells are non-trivial; hunt cases count as distinct by construction (fresh PRNG draw per case).",
		Assumptions: []string{"valid arguments = non-nil pointers, legal bases, words below the base, Int/Rat/Text('f') only at |exponent| <= 3 000 and Float at <= 20 000 (they materialise 10^|exp|), addend gaps capped", "a precision-0 receiver is a valid receiver for every setter including SetBitsExp"},
		Floors:      []floor{{"table/", 27864}, {"receiver-state/1", 9000}, {"receiver-state/4", 9000}, {"invalid_operation_cells", 500}, {"receivers_valid_after_ErrNaN", 500}, {"hunt/Quo", 2000}, {"hunt/Parse", 2000}, {"hunt/SetBitsExp", 500}, {"hunt/SetFloat", 500}, {"hunt_ErrNaN_panics", 50}},
		LevelText:   "Exhaustive enumeration of the finite class table against the float64 hardware plus a recover()-instrumented hunt over every public entry point with operand sizes that reach the deep multi-word paths.",
		Technique:   "runtime monitoring: exhaustive class table vs float64 hardware reference; panic classifier (recover) over hostile workloads",
		DesignRef:   "DESIGN.md §4 C04",
	},
	"C02": {
		Rule:        "55% arithmetic cases (C01's generator for Add/Sub/Mul/Quo/Set/SetPrec plus C03's FMA generator, 35% of them re-targeted at a precision that makes the exact result representable so that Exact must be reported iff nothing was lost) and 45% setter cases: SetUint64/SetInt64 (edge values around 2^63, 2^64, 10^19, rounding-aimed digit strings), SetInt (1..6 000 digits, powers of 2 and 10, zero), SetRat (random, terminating and rounding-aimed exact quotients), NewDecimal (exponents over all of int incl. the int64 extremes), SetMantExp (results within +-3 of both range ends, int64-extreme offsets, zeros, infinities), base-10 literals via Parse(s,10), Parse(s,0) with '_' separators, SetString and UnmarshalText (leading/trailing zeros, point anywhere, exponents to both range ends); receiver precision 0 or 1..45 or digit count +-3, six modes. Oracle: only the line Acc == sign(stored - exact), evaluated by exact magnitude comparison against the stored value (infinities as +-oo, underflowed zeros against the tiny exact value); model #1 is used as a cross-check of that truth. Every case is non-trivial; distinct = hashes of the case description. Added in later rounds: setter precisions from the top of the uint32 range, operands whose accuracy is Below/Above (hx.MkR), SetMantExp of zeros/infinities with such an accuracy, decimal mantissas with a small binary exponent, FMA addends that cancel the tail of a sparse product. Round 8: one inexact quotient of small integers per run into a receiver whose precision lies within 18 of MaxPrec (3.5 GB, ten seconds: the division works by the precision): it must fill the precision, be Below or Above as the mode says and start with the right digits.",
		Assumptions: []string{"Neg/Abs are not in the statement's list and are not judged", "for SetInt/SetRat with precision 0 the resulting precision is taken as found (C09 judges it)", "FMA cases whose exact product leaves the exponent range are known finding D15"},
		Floors:      []floor{{"expected-acc/0", 100000}, {"expected-acc/1", 50000}, {"expected-acc/-1", 50000}, {"SetMantExp", 5000}, {"NewDecimal", 5000}, {"SetRat", 5000}, {"Parse10", 3000}, {"UnmarshalText", 3000}, {"FMA/", 10000}, {"Quo/", 10000}},
		LevelText:   "Runtime monitoring of the accuracy flag against the exact value on every rounding operation of the statement; needs only the stored value and the exact value, not the rounding algorithm.",
		Technique:   "runtime oracle monitoring: sign(stored - exact) by exact big.Int comparison on generated hostile inputs",
		DesignRef:   "DESIGN.md §4 C02",
	},
	"C06": {
		Rule:        "Word-level cases through the verif exports: dec.mul (balanced, 1:2, 1:10, random lengths; dirty destination buffers), dec.sqr, dec.div on operands of 1..420 words (thorough: 1 100) whose words are drawn from {0, 1, 2, 10, 10^9, 10^18, base/2-1, base/2, base/2+1, base-2, base-1, random}; divisions: constructed add-back pairs (v=[..,0,base/2], u=[..,0,0,k]: the two-word test passes and q̂ is one too large), exact u=q*v, u=q*v+(v-1), dividends whose leading words equal the divisor's (q̂=base-1 path), 1- and 2-word divisors, divisors of 100..230 words with dividends spanning several recursion blocks; plus end-to-end Mul at precision = total digits (exact product) and Quo with the exact/inexact decision judged. Half of the cases run under a random threshold assignment (Karatsuba 2..40, basicSqr in {1,2,3,5,10,20}, karatsubaSqr in {2,3,4,6,11,50,100}) and half with the scratch pool poisoned (every buffer handed out or returned is overwritten with a word >= base). Oracle: big.Int product / QuoRem of the word vectors converted by harness code; operands unchanged; every output word < base. Hook counters prove that the add-back, q̂ correction, recursive corrections and Karatsuba branches were reached. Non-trivial = multi-word operands. Added in later rounds: B/k and binary-boundary edge words, block quotients of a few low words over a divisor with an almost empty low half, a few divisors of 6211..6300 (thorough: 12419..12700) words per run. Round 6: divisors of all nines with quotients of all nines and a remainder next to the divisor (u = v x B^k - small): every remainder correction adds v back at the top of its range.",
		Assumptions: []string{"thresholds and the pool callback are changed only between cases in a single-threaded worker", "the recursive-division threshold is a constant (100 words): both sides of it are exercised through the divisor length"},
		Floors:      []floor{{"hit_div_add_back", 1000}, {"hit_div_qhat_fix", 1000}, {"hit_div_rec_fix1", 500}, {"hit_div_rec_fix2", 300}, {"hit_div_recursive", 500}, {"hit_karatsuba", 5000}, {"hit_karatsuba_negative", 1000}, {"hit_karatsuba_sqr", 1000}, {"hit_basic_sqr", 1000}, {"mul/", 5000}, {"sqr/", 3000}, {"div/", 8000}, {"Quo/e2e", 1000}, {"Mul/e2e", 1000}},
		LevelText:   "Runtime monitoring of the multi-word routines against big.Int with adversarial word patterns, every threshold assignment family and a poisoned scratch pool; branch-hit counters from tag-guarded hooks show that the rare correction paths were actually executed.",
		Technique:   "runtime differential monitoring vs big.Int through tag-guarded exports; branch-hit counters; pool poisoning",
		DesignRef:   "DESIGN.md §4 C06",
	},
	"C07": {
		Rule:        "Part A (kernel twins): for each of the 12 decimal kernels and divWVW, inputs inside the precondition (words < base; dividend high word < divisor; shift 0..18; equal lengths except the add/sub kernels, whose sources may be longer than the destination as in u[j:]), lengths 0..70 (every residue mod 4, the >=4 fast paths and memcpy exits), edge words (0, 1, base-1, base/2, powers of ten, all-nines and all-zero vectors), the overlap shapes the library uses (z==x in place, z==y, z==x==y, shl with z above x, shr with z below x). Operands are carved out of mmap'ed arenas whose neighbouring pages are PROT_NONE (flush against the upper or the lower guard page) or surrounded by canary words; the selected implementation (assembly in the default build), the portable _g twin and a big.Int definition must agree on the output vector and the returned word; sources must be unchanged; words of an in-place operand beyond len(z) untouched. Part B (transcripts): every shard runs a deterministic program of public operations (arithmetic, Sqrt, setters, parse/format, conversions, gob/text round trips over 8 variables) and records SHA-256 digests per 250 steps; the driver requires identical digests from the workers built with tags {verif}, {verif,decimal_pure_go}, {verif,math_big_pure_go}, {verif,decimal_pure_go,math_big_pure_go} (thorough: also go1.26.8). Non-trivial = vector length > 0. Added in later rounds: 1 kernel case in 3000 uses vectors of 4095..20000 words in 20480-word guard-page arenas, with carries/borrows that ripple through every word; 6 in 100 place two buffers at addresses exactly 4 GiB apart (far pair); word pairs from the binary-boundary set. Round 7: every vector kernel is also called on 65 537 .. 139 000 words (a fixed share of the cases per kernel, arenas of 139 264 words); beyond 20 000 words the selected kernel is compared with its portable twin only (the definition is quadratic there).",
		Assumptions: []string{"inputs outside a kernel's precondition are never generated (e.g. shl/shr/mulAdd/addMul/div kernels are only called with len(x) == len(z) by the library)", "a read past a slice is only detected for operands flush against a guard page (one third of the placements); writes are also detected by canaries", "receiver contents after an error or an ErrNaN panic are undefined and excluded from the transcript line"},
		Floors:      []floor{{"kernel/add10VV", 15000}, {"kernel/shl10VU", 15000}, {"kernel/div10VWW", 15000}, {"kernel/divWVW", 15000}, {"kernel/mul10WW", 15000}, {"shape/1", 20000}, {"shape/4", 2000}, {"transcript_steps", 70000}, {"transcript_chunk_digests_compared", 300}},
		Variants: []variant{
			{Name: "verif", Tags: "verif"},
			{Name: "puredec", Tags: "verif,decimal_pure_go"},
			{Name: "purebig", Tags: "verif,math_big_pure_go"},
			{Name: "pureboth", Tags: "verif,decimal_pure_go,math_big_pure_go"},
		},
		ThoroughVariants: []variant{{Name: "go1268", Tags: "verif", Go: "go1.26.8", Optional: true}},
		LevelText:        "Runtime differential monitoring of every assembly kernel against its portable twin and the mathematical definition on guard-paged operands, plus whole-library transcript digests compared across four build configurations.",
		Technique:        "runtime monitoring: differential kernel twins with guard pages and canaries (hand-made sanitizer for Go assembly); transcript digests across build configurations",
		DesignRef:        "DESIGN.md §4 C07",
	},
	"C08": {
		Rule:        "Random programs of 60 (thorough: 100) public operations over 8 variables with receivers reused and aliased: Add/Sub/Mul/Quo/FMA/Sqrt, Set/Neg/Abs/Copy, SetPrec (incl. 0)/SetMode, SetInt64/SetUint64/SetInt/SetRat/SetFloat64/SetFloat, Parse/SetString/UnmarshalText of generated literals and token soup in every base, SetMantExp (exponents to both int32 ends and int64 extremes)/MantExp, SetBitsExp (valid words, any int64 exponent), SetInf, Gob round trips directly and through encoding/gob, decoding of mutated Gob payloads (accepted => must be canonical), text round trips, NewDecimal, getters. After EVERY step the walker visits ALL variables: finite => non-empty mantissa, all words < 10^19, leading word >= 10^18, 1 <= MinPrec <= Prec, mode and accuracy in range; zero/infinity => no mantissa exposed, MinPrec 0, MantExp 0 and prints as a bare signed 0/Inf; the receiver is compared with every other variable: Cmp == 0 iff equal exponent and equal digits after stripping low zero words. Any non-ErrNaN panic, or an ErrNaN on a valid call, is also a violation. Every evaluated step is non-trivial; distinct counted per step (fresh PRNG state). Added in later rounds: SetBitsExp with the receiver's own slice edited in place, SetPrec beyond MaxPrec, SetFloat at the ends of big.Float's exponent range, and a storage-ownership probe (two variables whose mantissa arrays overlap: one is modified in place, the other must not change).",
		Assumptions: []string{"steps that would materialise an exponent gap > 4 000 digits or allocate by a precision > 6 500 are skipped and counted", "the raw exponent BitsExp returns for a zero/infinity is a leftover field and is not examined"},
		Floors:      []floor{{"walker_visits", 1000000}, {"walker_zero", 100000}, {"walker_inf", 20000}, {"equal_value_pairs", 5000}, {"op/GobDecode", 3000}, {"op/SetBitsExp", 3000}, {"op/SetMantExp", 3000}, {"op/Quo", 5000}, {"ErrNaN_panics", 1000}},
		LevelText:   "Runtime invariant checking: a representation-invariant walker over all live variables after every step of random API programs (structural invariant at quiescent points).",
		Technique:   "runtime invariant monitor (structure walker after every step of generated operation sequences)",
		DesignRef:   "DESIGN.md §4 C08",
	},
	"C09": {
		Rule:        "Same program engine as C08 (without corrupted Gob payloads). A wrapper at the client boundary snapshots all 8 variables (raw words, exponent, sign, class, precision, mode, accuracy) and the math/big arguments before each call; afterwards every variable the operation is not documented to write must be bit-identical, big.Int/Rat/Float arguments unchanged; the receiver's mode must be unchanged except for the documented copiers (Copy, SetMantExp, MantExp's out-parameter, SetMode, GobDecode into a precision-0 receiver); the receiver's precision must be unchanged if it was non-zero, otherwise equal to the documented value (largest operand precision for Add/Sub/Mul/Quo/FMA, x's for Sqrt/Set/Neg/Abs, 34 for SetInt64/SetUint64/strings, 17 for SetFloat64, ceil(prec*log10 2) for SetFloat, the interval [max(34,MinPrec), max(34,digits/BitLen)] for SetInt/SetRat) or left at 0 for a zero/infinite result. Non-trivial = steps with a receiver. Added in later rounds: after an ErrNaN panic or a reported error the receiver's mode and a precision that was set must have survived; operands are compared bit for bit including the leftover exponent of zeros/infinities.",
		Assumptions: []string{"receiver attributes are not judged after an error return or an ErrNaN panic (contents documented as undefined); operands still are", "GobDecode of an empty buffer (documented as 'the other side sent a default value': the receiver is reset) is not generated", "for SetInt/SetRat with precision 0 the doc comment and the code name different formulas; both lie in the accepted interval"},
		Floors:      []floor{{"operand_snapshots_compared", 1000000}, {"op/Add/prec=0", 300}, {"op/Sqrt/prec=0", 100}, {"op/SetInt/prec=0", 100}, {"op/SetFloat64/prec=0", 100}, {"op/GobDecode/prec=0", 100}, {"op/SetMantExp", 3000}, {"op/MantExp", 1500}},
		LevelText:   "Runtime monitoring at the client boundary: snapshot/compare of all variables around every call of random programs, attribute rules per operation.",
		Technique:   "runtime monitor: before/after snapshots at the API boundary over generated operation sequences",
		DesignRef:   "DESIGN.md §4 C09",
	},
	"C20": {
		Rule:        "SetBitsExp(mant, exp): slices of 0..40 words (edge words, high zero words, low zero words, top word of 1..18 digits, all zero, all nines), exponents over all of int64 (both extremes, random 64-bit values, within 25 of either range end), receiver precision 1..60, smaller than the slice, or 0; six modes; receivers that held another value; oracle = +sum(m[i] B^i) x 10^(exp - 19 len) evaluated with a big.Int exponent (cannot wrap), rounded once by both models; all-zero => +0. BitsExp: values built through three routes (parser, arithmetic, raw) must be denoted exactly by the returned pair and by the independent 'p'-format read-out, with the exponent equal to the leading digit's. MantExp: exponent = leading digit's, mant in [0.1,1) with x's precision and mode, nil / fresh / same-variable out-parameter, ±0 and ±Inf special cases, x unchanged, and the documented identity SetMantExp(mant, x.MantExp(mant)) == x. SetMantExp(mant, k): exact mant x 10^k with k small, landing within 4 of either range end, anywhere in int, at the int64 extremes; ±0/±Inf exactly when the exponent leaves the range; attributes copied from mant; mant unchanged. Non-trivial = finite, non-empty inputs. Added in later rounds: the BitsExp -> edit in place -> SetBitsExp idiom, leading zero words on precision-0 receivers, MantExp's destination probed for shared storage, one slice of more than 2^32 digits and one with more than 2^31 leading zero digits per run (1.8 GB and 0.9 GB of untouched zero pages). Round 6: the 2^32-digit slice is also handed to receivers of small explicit precision (10, 19, 25, 38, random; five hand-overs, to-nearest modes with a rounding digit of 5 or more every other time), judged against a surrogate with the same top three words. Round 8: the receiver's own slice may be re-sliced from a higher word (the low words dropped) before it is edited and handed back.",
		Assumptions: []string{"for a precision-0 receiver of SetBitsExp the chosen precision is undocumented: only 'stored exactly and MinPrec <= Prec' is demanded", "accuracy after SetBitsExp is not part of the statement"},
		Floors:      []floor{{"SetBitsExp/", 40000}, {"SetBitsExp/prec0", 3000}, {"BitsExp/", 10000}, {"MantExp/", 10000}, {"SetMantExp/range-end", 5000}, {"SetMantExp/int64-extreme", 2000}},
		LevelText:   "Runtime monitoring of the raw access and MantExp/SetMantExp pairs against exact values with exponents evaluated in big.Int, over the whole int64 exponent space.",
		Technique:   "runtime oracle monitoring: exact big.Int reference (non-wrapping exponent arithmetic), inverse-pair identities",
		DesignRef:   "DESIGN.md §4 C20",
	},
	"C14": {
		Rule:        "Getters (60%): values clustered at 2^63, 2^64, 10^18, 10^19, 10^20, 10^38 (+-3, with fractional parts of 1..30 digits incl. all-nines fractions, and integers written with positive exponents), exponents 0..25 (both sides of the x.exp <= 20 branch), moderate exponents to +-20 000, zeros and infinities; for each: Int (nil and provided destination), Int64, Uint64, Rat (nil and provided), IsInt, MinPrec compared with the exact rational (truncation toward zero, saturation values and accuracies as documented, Exact iff nothing discarded), x unchanged. Setters (40%): SetUint64/SetInt64 (edge values), SetInt (1..20 000 digits, powers of 2 and 10, all nines, rounding-aimed, zero), SetRat (random, terminating, exact quotients, integers), NewDecimal (exponents over all of int incl. both range ends and the int64 extremes) judged by both oracle models at the receiver's precision; with a precision-0 receiver an integer argument must be stored exactly; arguments unchanged; an exactly stored result must report Exact. Non-trivial = finite operands / every setter case. Added in later rounds: SetInt arguments to 160000 digits, precisions of 2^31 and above for IsInt/MinPrec, one SetInt of 430000..470000 digits and one Rat with a million-digit fraction per run. Round 8: Int64 and Uint64 of ddddd.000...07 held in a mantissa of a little more than 2^31 digits (one per run).",
		Assumptions: []string{"Int and Rat are exercised at |exponent| <= 20 000 (they materialise 10^|exp|)", "the accuracy returned by Int/Rat for an infinity is not in the statement and is not judged"},
		Floors:      []floor{{"getter/around-boundaries", 30000}, {"getter/exp-0-25", 20000}, {"getter/inf", 3000}, {"SetInt", 10000}, {"SetRat", 10000}, {"NewDecimal", 10000}, {"precision0_integer_exact", 3000}},
		LevelText:   "Runtime monitoring of every conversion against exact big.Int/big.Rat values, aimed at the saturation bounds and word boundaries.",
		Technique:   "runtime oracle monitoring: exact big.Int/big.Rat reference on boundary-clustered inputs",
		DesignRef:   "DESIGN.md §4 C14",
	},
	"C15": {
		Rule:        "SetFloat64 (30%): float64 bit patterns (uniform bits, subnormals, powers of two +-1 ulp, extremes, short binary fractions, decimal-looking values, +-0, +-Inf, NaN) at precision 0 (-> 17), 1..40 and 700..800 (holds every float64 expansion): sign kept, zeros/infinities mapped to themselves, NaN => ErrNaN, exact whenever MinPrec(expansion) <= precision, otherwise at most one unit in the last place from RoundOnce(exact). SetFloat (15%): big.Float of 1..2 000 bits, binary exponents to +-3 000 (thorough +-100 000), +-0 and +-Inf: same rules with a 64-unit bound; argument unchanged. Float64/Float32 (40%): Decimals on the float grid, at exact midpoints of adjacent floats, and those nudged by a relative 10^-3..10^-60; values around both ends of each format's range and at astronomically large exponents; zeros, infinities: the returned value must be the float nearest to x (big.Rat.Float64/Float32 on the exact rational, range alone beyond |exponent| 400) and the accuracy sign(returned - x). Float (15%): result precision as documented, within 64 binary units of x, special values. Non-trivial = finite inputs. Added in later rounds: receivers at MaxPrec, dirty Float destinations, Float beyond big.Float's exponent range, over-wide big.Floats, short decimal integers c x 10^n, float64 look-alikes at the ends of the double's range, thousands of digits into thousands of bits, precision-0 zeros; the accuracy of Float64/Float32 is judged against the returned value for every finite input. Round 7: big.Floats of 2 000 .. 140 000 bits (short mantissas) for SetFloat; the precision a precision-0 receiver is given is compared with the exact count of digits of 2^Prec(), not with a float64 formula. Round 8: float look-alikes with a tail 60..6 000 digits down, in mantissas padded with up to 400 zero digits below it; zeros and infinities of any uint32 precision (and sums of small multiples of the continued-fraction denominators of log10 2) for SetFloat's precision-0 default, against an exact count (D42).",
		Assumptions: []string{"'a few dozen units' (SetFloat, Float) is read as 64 units in the last place: a drift alarm, not a tight specification", "big.Float binary exponents are capped (oracle cost): +-3 000 quick, +-100 000 thorough", "Float64/Float32 results for x within 2^-8 ulp (float64) / 2^-5 ulp (float32) of a multiple of half the format's spacing are known finding D12 as far as the returned VALUE is concerned (double rounding through a 64/32-bit big.Float may return the second-nearest value at a midpoint); everything outside that band is a violation, and the accuracy is judged for every finite input against the value that was returned"},
		Floors:      []floor{{"SetFloat64/", 30000}, {"setfloat64_exactly_representable", 3000}, {"SetFloat/finite", 10000}, {"Float64/midpoint", 5000}, {"Float32/midpoint", 2000}, {"tofloat_outside_double_rounding_band", 10000}, {"tofloat_accuracy_judged_against_returned_value", 45000}, {"Float/finite", 10000}, {"Float64/range-edge", 3000}},
		LevelText:   "Runtime monitoring of the binary conversions against exact rationals (big.Rat) with inputs constructed on and beside the float grid.",
		Technique:   "runtime oracle monitoring: exact rational reference (big.Rat nearest-float), grid-constructed inputs",
		DesignRef:   "DESIGN.md §4 C15",
	},
	"C16": {
		Rule:        "Triples (a, b, c): a random (1..120 digits, exponents incl. both range ends, zeros, infinities), b related to a (equal; negated; last digit +-1; same value with a longer mantissa +-1 in a far lower place; exponent +-1; equal with trailing zeros moved into the exponent; unrelated), c related to b or random. Each value is built through a different route (raw words with extra low zero words, parser at a larger precision, arithmetic result, a receiver that held a 100..400-digit value before, plain) with random precision, mode and accuracy history. All nine Cmp results must equal the sign of the exact difference (class, then leading-digit exponent, then aligned coefficients), be antisymmetric, and the library's own answers must sort transitively; Sign, Signbit, IsZero, IsInf must agree; operands unchanged. Non-trivial = b related to a. Added in later rounds: precisions from the top of the range on any route, values related by whole words (extra low words from the binary-boundary set, +-d in two words). Round 7: a sixth route builds a value in a mantissa 1..9 words longer than its precision needs (zero low words; the shape GobDecode leaves when a payload carries them).",
		Assumptions: []string{"values are constructed through public setters and verified by read-back before use"},
		Floors:      []floor{{"pair/equal", 5000}, {"pair/last-digit", 5000}, {"pair/longer-mantissa", 5000}, {"pair/equal-trailing-zeros", 5000}, {"route/low-zero-words", 20000}, {"comparisons", 1000000}},
		LevelText:   "Runtime monitoring of Cmp against the exact order on pairs constructed to be equal up to representation or to differ in the last place only.",
		Technique:   "runtime oracle monitoring: exact order by big.Int comparison, antisymmetry/transitivity over recorded answers",
		DesignRef:   "DESIGN.md §4 C16",
	},
	"C12": {
		Rule:        "Decimal literals (35%): generated from a digit string (1..6 000 digits, rounding-aimed or patterned, leading/trailing zeros, all zeros), a radix point anywhere, an exponent to both ends of the int32 range, rendered plainly and with '_' separators, through Parse(s,10), Parse(s,0), SetString, ParseDecimal, UnmarshalText and fmt.Sscan; receiver precision 0 (-> 34), 1..45 or digit count +-3, six modes, dirty receivers: value and accuracy against the exact literal value by both oracle models, reported base, resulting precision and mode. Binary literals (20%): 0b/0o/0x mantissas with optional fraction and optional p exponent, decimal mantissas with a p exponent: exact value m x 2^k; stored exactly when its decimal expansion fits the precision, otherwise within one unit of the correctly rounded value; detected base. Exponent range (10%): non-zero and zero mantissas with exponents within 400 (sometimes 200 000) of +-2^31, 2^32, 2^63, 2^64, k*2^64, 2^65 and 11..30-digit exponents, with sign and leading-zero variants: accepted exactly when the exponent text fits an int64 and the leading digit's exponent (computed in big.Int) lies in [MinExp, MaxExp], then stored exactly-then-rounded; rejected with a nil result otherwise. Language (40%): token soup, mutated and truncated literals, literals with trailing garbage, x bases {0,2,8,10,16}: no entry point may panic; a failed call returns a nil *Decimal; an accepted one leaves a canonical value; acceptance and detected base must equal big.Float.Parse for literals whose exponent magnitude is <= 10^4 (beyond that math/big's binary exponent range differs). Every case is non-trivial. Added in later rounds: SetString/ParseDecimal/UnmarshalText must agree with Parse (acceptance and state), foreign spellings (null, <nil>, ...), Sscanf with every floating-point verb, binary exponents around and beyond +-2^31/2^32/2^63/2^64, mixed-base literals (0b/0o mantissa with a fraction and a decimal exponent) aimed at both ends of the range and at rounding carries, ParseDecimal precisions beyond 2^32, binary literals into receivers at the top of the precision range. Round 7: mixed-base literals also with sparse mantissas 1.000...0001 (20..110 digits) at the ends of the range; a mixed-base literal whose exact value lies above the exponent range must be rejected like its decimal spelling (only a value inside the range whose rounding carries out becomes an infinity). Round 8: a second sign in front of literals and infinity spellings (-+Inf, +-1, --0x1p3 ...).",
		Assumptions: []string{"Scan (fmt) accepts a valid prefix by design: its acceptance is not compared with Parse's", "language comparison is limited to exponent magnitudes <= 10^4; range rejections beyond that are covered by the decimal-literal cases at both range ends"},
		Floors:      []floor{{"decimal/", 60000}, {"binary/", 30000}, {"binary_exactly_representable", 5000}, {"range/accepted", 1200}, {"range/rejected", 12000}, {"language/accepted", 10000}, {"language/rejected", 20000}, {"language_compared_with_math_big", 40000}, {"entry_point_calls", 150000}},
		LevelText:   "Runtime monitoring of the parser against exact literal values and against math/big's parser as a reference for the accepted language; grammar-aware fuzzing for totality.",
		Technique:   "runtime oracle monitoring: exact literal reference + differential vs math/big Float.Parse; recover()-instrumented fuzzing",
		DesignRef:   "DESIGN.md §4 C12",
	},
	"C13": {
		Rule:        "Differential (55%, no model): every finite float64 has a finite exact decimal expansion; x = that expansion as a Decimal in ToNearestEven. Text/Append(x, f, prec) must equal strconv.FormatFloat(v, f, prec, 64) for f in e E f g G and prec 0..45 (prec -1 only when strconv's shortest form is the exact expansion), and fmt.Sprintf(verb, x) must equal fmt.Sprintf(verb, v) for verbs e E f F g G v x every subset of the flags '+', ' ', '-', '0' x width 0..30 x precision 0..20 or absent, incl. +-0, +-Inf, values at the %g thresholds and 9.99->10.0 carries. Model (45%): arbitrary Decimals (1..200 digits, digit strings aimed at the requested rounding position incl. positions at or above the leading digit, six modes, zeros, infinities): Text(f, prec) for f in e E f g G and prec -1..40 must equal RoundToPlace(x, position, x.Mode()) laid out by a port of strconv's %e/%f/%g rules, itself cross-checked against strconv on every differential case; 'p' and 'b' layouts directly; String() = Text('g', 10). x unchanged. Non-trivial = finite values. Added in later rounds: a top-decade rounding class, %s / precision-less %v / %b / unknown verbs through Format, field widths to 900, runs of more than a million zeros. Round 8: one f layout of a value in the top decade of the exponent range per run (2 GiB of output): length and leading digits.",
		Assumptions: []string{"excluded because they are not what the statement names: the '#' flag; '+'/' ' combined with %v (fmt turns them into plusV/spaceV for built-in floats, which a Formatter cannot observe); precision-less %g/%G/%v unless the float's shortest form is its exact expansion", "'f' is exercised at |exponent| <= 3 000"},
		Floors:      []floor{{"strconv/", 50000}, {"fmt/", 50000}, {"model/f/position-at-or-above-leading-digit", 1500}, {"model/e/aimed-at-position", 3000}, {"model/g/aimed-at-position", 3000}, {"model/p/", 8000}, {"model/b/", 8000}, {"fmt_model_cases", 10000}, {"mode/ToNegativeInf", 10000}},
		LevelText:   "Runtime differential monitoring of formatting against strconv and fmt themselves on float64-representable values, plus a strconv-validated layout model for arbitrary Decimals in all six modes.",
		Technique:   "runtime differential monitoring vs strconv/fmt; strconv-validated layout model + exact rounding oracle",
		DesignRef:   "DESIGN.md §4 C13",
	},
	"C11": {
		Rule:        "Values (1..3 000 digits incl. interior and trailing zero words, exponents from MinExp to MaxExp, both signs, zeros, infinities) built through five routes (raw words with extra low zero words, parser, arithmetic, reused longer buffer, plain) are printed with Text/Append in e, E, f (|exponent| < 5 000), g, G, p at precision -1, with b, MarshalText and json.Marshal; the text must (1) carry exactly the oracle's significant digits, MinPrec of them (first through last non-zero digit of the mantissa part; not for b/JSON), (2) parse back (Parse base 10 / SetString / UnmarshalText / json.Unmarshal) into receivers of precision max(1,MinPrec), +1 and +40, any mode, dirty or fresh, to exactly x's value and sign incl. -0 and +-Inf, comparing equal to x. x unchanged. Non-trivial = finite values. Added in later rounds: Append into buffers with spare capacity, the MarshalText result overwritten by its owner before the next call, a second formatting after an in-place update of interior mantissa words. Round 6: the shared exponent generator also draws +-10^j and its neighbours (where the printed exponent gains or loses a digit). Round 7: one mantissa of 66 000 .. 72 000 words (1.3 million digits) per run, printed (e, g or MarshalText), compared digit for digit and read back. Round 8: f (also e, g) of values whose integer part has every length in 65 466..65 605 and 130 972..131 111 digits once per run, with a short fraction (seams of block-wise conversions).",
		Assumptions: []string{"'f' output is generated only for |exponent| < 5 000 (it materialises the exponent)"},
		Floors:      []floor{{"format/e/finite", 8000}, {"format/f/finite", 5000}, {"format/g/finite", 8000}, {"format/p/finite", 8000}, {"format/b/finite", 8000}, {"format/JSON/finite", 8000}, {"format/MarshalText/finite", 8000}, {"round_trips", 250000}, {"route/low-zero-words", 10000}},
		LevelText:   "Runtime round-trip monitoring (metamorphic): print, check the digits against the exact value, parse back at three precisions.",
		Technique:   "runtime metamorphic monitoring: print/parse round trip with digit-level comparison against the exact value",
		DesignRef:   "DESIGN.md §4 C11",
	},
	"C17": {
		Rule:        "Round trips (25%): values of every form x mode x accuracy (Below/Above produced by real roundings) x precisions incl. mantissas much shorter than the precision, through GobEncode/GobDecode and through encoding/gob streams into a zero value: value, sign, precision, mode and accuracy must come back; x unchanged. Into a receiver with precision q != 0 (15%): q and the receiver's mode kept, value = the transmitted value rounded once to (q, mode) by both oracle models. Hostile bytes (60%): valid encodings truncated at every length, with one bit flipped (header and body), with random byte edits, extended with trailing bytes; hand-built payloads with form 3, mode 6/7, accuracy 3, precision 0 / 2^32-1 / random, exponent anywhere, mantissa words >= 10^19, 2^64-1, zero or short leading word, partial last word; random bytes. GobDecode must never panic; whatever it returns, the receiver must pass the C08 walker; an accepted payload must survive a battery of follow-up calls (Text, Cmp, Add, Mul, Sub, Set, Neg, Int64, re-encoding and decoding to an equal value). Every case is non-trivial. Added in later rounds: both buffers (GobEncode's result, GobDecode's input) are overwritten by their owner afterwards, a mantissa word exactly equal to the base. Round 6: one well-formed payload of a little more than 2^32 digits (1.8 GB, precision field = digit count mod 2^32 plus 0..300) decoded into a zero value: whatever GobDecode answers, the receiver must not hold more digits than its precision. Round 8: the receiver of a decode may hold a relative of what arrives (the same words followed by more, a few digits more, the leading digits only, the same value, the opposite sign).",
		Assumptions: []string{"the follow-up battery is skipped (and counted) when an accepted payload carries a precision above 100 000: a legitimate attribute, but Set/Mul at that size only test the allocator"},
		Floors:      []floor{{"roundtrip/direct", 20000}, {"roundtrip/encoding-gob", 20000}, {"roundtrip-acc/-1", 5000}, {"roundtrip-acc/1", 5000}, {"into-receiver", 25000}, {"hostile/truncated", 20000}, {"hostile/bit-flip", 20000}, {"hostile/hand-built", 30000}, {"hostile_accepted", 20000}, {"hostile_rejected", 50000}},
		LevelText:   "Runtime monitoring of the Gob codec: attribute-exact round trips, oracle-checked rounding into receivers, and field-aware fuzzing of the decoder with the invariant walker and a follow-up battery as oracles.",
		Technique:   "runtime monitoring: round-trip comparison, exact rounding oracle, recover()-instrumented structured fuzzing + invariant walker",
		DesignRef:   "DESIGN.md §4 C17",
	},
	"C19": {
		Rule:        "Sequences of 30 context operations run in lock-step with a sequential model {prec, mode, latched}: Add/Sub/Mul/Quo/FMA/Sqrt/Neg/Abs/Set on operands of every class (finite to 60 digits, +-0, +-Inf: valid and NaN-producing combinations), receivers with their own precision/mode/old contents (12% also an operand), Err, SetPrec (incl. 0), SetMode, and the factories New/NewInt/NewInt64/NewUint64/NewRat/NewFloat64 (25% NaN)/NewFloat/NewString/ParseDecimal. Per step: while the model is latched, an operation must return the same pointer and leave the receiver's entire raw state unchanged; otherwise a receiver distinct from the operands must hold the exact result rounded once to the CONTEXT's precision and mode (both oracle models) and carry those attributes; a NaN-producing call must not panic and latches the model (first error wins); Err() returns an ErrNaN exactly once, then nil, and re-arms. Panics that are not ErrNaN are injected three ways - a nil operand (runtime error), an error value and a string raised from inside the library's rounding step through the verif hook - and must escape without latching the context. Factories: attributes = context's, exact ones judged for value. Every step is non-trivial. Added in later rounds: precisions beyond 2^32 through New and SetPrec, binary factories judged (sign, class, distance), FMA products beyond the range with infinite addends (D15 matched by outcome: the recorded ErrNaN), copies of the context. Round 8: an aliased receiver may be all nines in the top decade beyond the context's precision, with the other operand chosen so that the rounded receiver's class makes the operation a NaN; the model rounds an aliased operand to the context before it decides whether a NaN is due.",
		Assumptions: []string{"when the receiver is also an operand the context rounds it before operating (documented caveat): only the latch behaviour is judged then", "nothing is promised about factories while the context is latched (they have no receiver): only 'no panic' is demanded", "NewFloat/NewFloat64 values are C15's (faithful, not exact)"},
		Floors:      []floor{{"ops_while_latched", 10000}, {"nan_latched", 3000}, {"err_returned_ErrNaN", 2000}, {"injected_panics", 5000}, {"op/FMA", 20000}, {"op/Sqrt", 20000}, {"factory/NewFloat64", 8000}, {"op/Err", 25000}},
		LevelText:   "Model-based runtime monitoring: a sequential reference model of the context's latch runs in lock-step with the real Context over generated operation sequences, with injected foreign panics.",
		Technique:   "runtime trace checking against an executable sequential model; fault (panic) injection through a tag-guarded hook",
		DesignRef:   "DESIGN.md §4 C19",
	},
	"C10": {
		Rule:        "Metamorphic: for each operation instance (Add/Sub/Mul/Quo/FMA/Sqrt/Set/Neg/Abs; operands of 1..200 words so that shifts, Karatsuba scratch, squaring and the in-place quotient interact with reused capacity; occasional +-0/+-Inf operands; precisions 1..1 400) the result on a fresh receiver with distinct variables (value, sign, accuracy, precision, mode, or the panic class) is the reference. It must be reproduced (a) under a random sharing pattern of receiver and operands (5 for binary operations, 15 for FMA, 2 for unary ones; operands sharing a variable are given equal values, operands sharing the receiver fit its precision) with the non-shared operands left bit-identical, and (b) when the receiver is a variable of its own, by two receivers with previous contents drawn from: a longer value, a shorter value, +0, -0, +-Inf, an inexact accuracy, and raw receivers built through the verif export with a larger capacity whose words beyond len are stale (all nines, random, or >= base), an exactly sized buffer, and a zero that still carries the mantissa and an exponent anywhere in int32 of a previous value. Half of the cases run with the scratch pool poisoned. 22% of the cases are setters instead (SetInt64/SetUint64/SetInt/SetRat/SetFloat64/SetFloat/SetString/SetBitsExp/SetInf/GobDecode/UnmarshalText): outcome on a fresh receiver == outcome on two receivers with previous contents. Non-trivial = a non-distinct sharing pattern or a setter case. Added in later rounds: divisors 10^k/1/2/5/25, zero-addend FMAs with products beyond the range, twice the share of zeros/infinities, spare capacity of six times the length, an operand whole words above the receiver's mantissa, shared operands with a Below/Above accuracy.",
		Assumptions: []string{"raw receivers are canonical values (or zeros with leftover fields, a state the public API produces): garbage is only placed beyond len(mant)", "results after an (identical) ErrNaN panic are undefined and not compared"},
		Floors:      []floor{{"shape/FMA/z=u", 50}, {"shape/Add/z=x", 500}, {"shape/Quo/z=y", 500}, {"shape/Mul/z=x=y", 500}, {"shape/Sqrt/z=x", 1000}, {"dirty_receiver_variants", 40000}, {"setter/", 10000}, {"dirty/raw-large-cap-stale", 4000}, {"dirty/raw-zero-form-stale-mant", 4000}},
		LevelText:   "Runtime metamorphic monitoring: aliasing shapes and dirty receivers must reproduce the fresh-receiver result; needs no external truth, so it cannot disagree with a correct library.",
		Technique:   "runtime metamorphic monitoring (aliasing partitions, dirty and raw-stale receivers, poisoned scratch pool)",
		DesignRef:   "DESIGN.md §4 C10",
	},
	"C18": {
		Rule:        "Workers built with -race and -tags verif, once with the assembly kernels and once with the portable ones (decimal_pure_go: the race detector sees into them). Per shard (4 shards = 4 different operand/job tables): 35 shared operands (5..6 000 digits, +-0, +-Inf, 1, integers filling their mantissa, values in the top and bottom decade of the exponent range, zeros and an infinity in variables that held finite values) and a table of 520 jobs of 27 kinds: readers of shared operands (Add, Sub, Mul, squaring, Quo incl. 100..200-word divisors, FMA, Sqrt, Cmp, Text, Format, Float64/32, Float, Int, Rat, GobEncode, MarshalText, Set; precisions to 4 000) and writers into the goroutine's own receiver from shared or constant arguments (Parse of decimal and binary literals, gob round trip, SetRat, SetInt, SetFloat64, SetFloat, fmt with zero- and space-padded wide fields, Int of values far longer than their mantissa, the accumulation a.FMA(x, y, a)). Before anything else runs in the process, the first job of every kind is executed by 8 goroutines released together (cold start). Then the table is computed sequentially twice (determinism, getters do not write; operands compared bit for bit incl. the leftover exponent of zeros and infinities). Then, per repetition (3 quick / 60 thorough), four configurations (GOMAXPROCS, goroutines) = (2,4), (4,16), (16,16), (16,64) run the jobs in per-goroutine random order, each goroutine writing only to its own receivers; in every other configuration the verif hooks poison the scratch pool and inject Gosched / 0..50 us sleeps / runtime.GC() (empties the pool) at the pool get/put sites. Oracles: (1) the race detector: any report block is a violation (deduplicated by the outermost frames of the two accesses); (2) every concurrent result must equal the sequential one; (3) operand snapshots before/after. Evidence counts operation intervals from different goroutines that overlapped on a common operand (atomic busy masks recorded at the client boundary), distinct overlapping (kind, kind) pairs, hook calls, injected yields and GC cycles, pool gets, Karatsuba and recursive-division entries. A case = one configuration run; all are non-trivial. Round 6: a large-buffer phase (shared operands of 70 000 .. 1 000 000 digits built from words; Mul, Sqr, Quo, Text, MarshalText, Format, Gob, Cmp, Int run by 4 goroutines, pairs on the same job at the same time: scratch of a megabyte and more, digit buffers beyond 64 KiB); the library's hit counters are plain increments in race builds, so that they are not a synchronisation point at every hook site (an atomic counter hid a race next to the pool sites in two runs out of three). Round 7: a pool-churn phase (16 goroutines, quotients of short values by shared divisors of 8 192 .. 9 000 words: three large scratch buffers per quotient at a high rate) with an ownership table kept by the pool hook - a buffer handed out while it is still out is a violation whether or not a result shows it; the overlap statistics are atomics and are kept only in the delay-injecting configurations. Round 8: a quarter of the Sqrt jobs keep a negative operand (the call panics with ErrNaN, recovered by the job, while other goroutines are inside Sqrt); quick runs 3 repetitions.",
		Assumptions: []string{"the race detector only sees the interleavings that occurred: the claim is 'no race on the K overlapping operations observed', not schedule coverage", "the monitor's own state is atomics only; hooks are installed while no goroutine runs"},
		Floors:      []floor{{"overlapping_operations_on_a_shared_operand", 5000}, {"distinct_overlapping_operation_pairs", 100}, {"concurrent_operations", 100000}, {"hook_calls_at_pool_sites", 10000}, {"injected_gc_cycles", 50}, {"hit_karatsuba", 1000}, {"hit_div_recursive", 100}, {"config/", 64}},
		Variants: []variant{
			{Name: "race", Tags: "verif", Race: true, Env: []string{"GORACE=halt_on_error=0 exitcode=0"}},
			// the portable kernels are ordinary Go code: the race detector sees into them (it cannot see into the assembly)
			{Name: "race-puredec", Tags: "verif,decimal_pure_go", Race: true, Env: []string{"GORACE=halt_on_error=0 exitcode=0"}},
		},
		Shards:     4,
		RaceShards: 4,
		LevelText:  "Race-detector monitoring of a read-only-sharing stress workload with injected delays, GC and pool poisoning, plus determinism and operand-snapshot oracles; evidence reports the overlaps actually observed.",
		Technique:  "Go race detector over a stress workload with hook-injected yields/GC; determinism vs sequential reference; operand snapshots",
		DesignRef:  "DESIGN.md §4 C18",
	},
}

func writeManifest() {
	type check struct {
		PropertyID string                 `json:"property_id"`
		Quick      string                 `json:"quick_cmd"`
		Thorough   string                 `json:"thorough_cmd"`
		Evidence   string                 `json:"evidence_file"`
		Replay     string                 `json:"replay_cmd_template"`
		Engine     string                 `json:"engine"`
		Level      map[string]interface{} `json:"level_claimed"`
		LevelNote  string                 `json:"level_note"`
		Technique  string                 `json:"technique"`
	}
	var ids []string
	for id := range props {
		ids = append(ids, id)
	}
	sort.Strings(ids)
	var checks []check
	for _, id := range ids {
		p := props[id]
		note := p.LevelNote
		if note == "" {
			note = commonNote
		}
		checks = append(checks, check{
			PropertyID: id,
			Quick:      "./check " + id + " quick",
			Thorough:   "./check " + id + " thorough",
			Evidence:   "/verif/evidence/" + id + ".json",
			Replay:     "./check replay {path}",
			Engine:     "vworker",
			Level:      map[string]interface{}{"category": "exploration", "text": p.LevelText, "design_ref": p.DesignRef},
			LevelNote:  note,
			Technique:  p.Technique,
		})
	}
	// hooks and not_applicable are kept in a hand-written side file so that this generator stays a pure function of the table
	var side struct {
		Hooks         map[string]interface{}   `json:"hooks"`
		NotApplicable []map[string]interface{} `json:"not_applicable"`
		Notes         string                   `json:"notes"`
	}
	b, err := os.ReadFile(filepath.Join(verifDir, "manifest_side.json"))
	if err != nil {
		die(3, "manifest_side.json: %v", err)
	}
	if err := json.Unmarshal(b, &side); err != nil {
		die(3, "manifest_side.json: %v", err)
	}
	na := []map[string]interface{}{}
	for _, x := range side.NotApplicable {
		if id, _ := x["property_id"].(string); props[id] == nil {
			na = append(na, x)
		}
	}
	// every property of properties.jsonl that has no check and no hand-written reason is listed as not built
	if pb, err := os.ReadFile(filepath.Join(verifDir, "properties.jsonl")); err == nil {
		listed := map[string]bool{}
		for _, x := range na {
			id, _ := x["property_id"].(string)
			listed[id] = true
		}
		for _, line := range bytes.Split(pb, []byte("\n")) {
			var p struct {
				ID string `json:"id"`
			}
			if json.Unmarshal(line, &p) == nil && p.ID != "" && props[p.ID] == nil && !listed[p.ID] {
				na = append(na, map[string]interface{}{"property_id": p.ID, "reason": "runtime-monitoring check designed (DESIGN.md section 4) but not built yet in this snapshot; no claim is made"})
			}
		}
	}
	m := map[string]interface{}{
		"version":   1,
		"setup_cmd": "./setup.sh",
		"hooks":     side.Hooks,
		"engines": []map[string]interface{}{{
			"name": "vworker", "path": "harness/cmd/vworker",
			"serves_properties": ids,
			"kind_free_text":    "Go worker built from /repo's working tree with -tags verif; one child process per shard, cases are a pure function of (seed, property, index); driver harness/cmd/vdriver merges, applies known_findings.json, writes evidence",
		}},
		"checks":         checks,
		"not_applicable": na,
		"notes":          side.Notes,
	}
	out, _ := json.MarshalIndent(m, "", " ")
	if err := os.WriteFile(filepath.Join(verifDir, "MANIFEST.json"), append(out, '\n'), 0o644); err != nil {
		die(3, "%v", err)
	}
	fmt.Printf("MANIFEST.json written: %d checks, %d not applicable\n", len(checks), len(na))
}
