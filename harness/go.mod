module verifharness

go 1.23

require github.com/db47h/decimal v0.0.0

replace github.com/db47h/decimal => /repo
